"""A `set` whose iteration order is decided by the simulator.

Bound to the name ``set`` in the namespace of ``ppci.build.tasks`` (a seam
the code already has: the builtin is looked up through module globals), so
that *one seed = one iteration order of every set of target names*,
independent of the interpreter's real hash seed.

Guarantees kept exactly as CPython gives them, so that no correct program can
tell the difference:
  * iterating the same, unmodified set object twice gives the same order;
  * membership, equality, size and all algebra are the builtin's.
Not kept (CPython does not promise it either): any relation between the
orders of two different set objects, or of one object before and after a
mutation.
"""


class SimSetContext:
    def __init__(self, ch, mode):
        self.ch = ch
        self.mode = mode  # 0 sorted, 1 reversed, 2 seeded permutation
        self.orders = []  # every order handed out, for history / signature

    def order(self, items):
        items = sorted(items, key=lambda x: (str(type(x)), x))
        if self.mode == 0:
            out = items
        elif self.mode == 1:
            out = items[::-1]
        else:
            out = self.ch.perm(items, "setiter")
        self.orders.append(tuple(out))
        return out


_CTX = [None]


def set_context(ctx):
    _CTX[0] = ctx


def _wrap_new(name):
    base = getattr(set, name)

    def method(self, *args):
        res = base(self, *args)
        if res is NotImplemented:
            return res
        return SimSet(res)

    method.__name__ = name
    return method


def _wrap_mut(name):
    base = getattr(set, name)

    def method(self, *args):
        self._order = None
        return base(self, *args)

    method.__name__ = name
    return method


class SimSet(set):
    __slots__ = ("_order",)

    def __init__(self, *args):
        set.__init__(self, *args)
        self._order = None

    def __iter__(self):
        if len(self) <= 1 or _CTX[0] is None:
            return set.__iter__(self)
        if self._order is None:
            self._order = _CTX[0].order(set.__iter__(self))
        return iter(list(self._order))

    def pop(self):
        if not self:
            raise KeyError("pop from an empty set")
        item = next(iter(self))
        self._order = None
        set.discard(self, item)
        return item

    __hash__ = None

    def __repr__(self):
        return "SimSet(%r)" % (sorted(set.__iter__(self), key=repr),)

    def __reduce__(self):
        return (SimSet, (list(set.__iter__(self)),))


for _n in ("union", "intersection", "difference", "symmetric_difference",
           "copy", "__or__", "__and__", "__sub__", "__xor__", "__ror__",
           "__rand__", "__rsub__", "__rxor__"):
    setattr(SimSet, _n, _wrap_new(_n))
for _n in ("add", "discard", "remove", "clear", "update",
           "intersection_update", "difference_update",
           "symmetric_difference_update", "__ior__", "__iand__", "__isub__",
           "__ixor__"):
    setattr(SimSet, _n, _wrap_mut(_n))
