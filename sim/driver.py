"""Seeded search over many simulated runs, in parallel, with determinism
self-test, minimisation, replay files, known-finding matching and evidence.

A check module provides a `Spec`:

    prop            property id
    run_one(ch, render=False) -> dict with keys
        viol      list of (oracle_id, detail)   (empty = property held)
        digest    hex digest of the recorded history
        sig       hashable schedule signature (any str)
        nontrivial bool
        faults    {kind: fired}
        probes    {clause: reached}
        sim_us    simulated microseconds covered
        steps     scheduler yields
        render    (only when render=True) JSON-able description of the run
    classify(oracle_id, result) -> known-finding id or None
    rule, assumptions, components_real, components_stub   (evidence text)
"""

import faulthandler
import json
import multiprocessing
import os
import subprocess
import sys
import traceback
from collections import Counter
from concurrent.futures import ProcessPoolExecutor

from .choices import Choices, derive_seed, shrink
from . import report

_SPEC = None


class HarnessError(Exception):
    pass


def seed_for(prop, seed, idx):
    return derive_seed(prop, seed, idx)


SCENARIO_BASE = 10_000_000  # run indices from here on are scenario runs


def run_idx(spec, seed, idx, render=False):
    ch = Choices(seed=seed_for(spec.prop, seed, idx))
    ch.run_index = idx
    res = spec.run_one(ch, render=render)
    res["record"] = ch.record
    return res


def run_replay(spec, values, render=False, run_index=0):
    ch = Choices(replay=values)
    ch.run_index = run_index
    res = spec.run_one(ch, render=render)
    res["record"] = ch.record
    return res


def keyed_violations(spec, res):
    """(key, detail) per violation; key = oracle id, plus the id of the
    known finding it matches (if any) so that an unlisted violation of the
    same oracle is still reported separately."""
    out = []
    for oid, detail in res["viol"]:
        fid = spec.classify(oid, detail, res)
        out.append((oid if fid is None else f"{oid}|known:{fid}", detail))
    return out


def _worker(args):
    seed, lo, hi, stride, selftest_every, max_keep = args
    spec = _SPEC
    out = {
        "runs": 0, "faults": Counter(), "probes": Counter(), "sigs": set(),
        "viol": {}, "sim_us": 0, "steps": 0, "nontrivial": 0,
        "digests": {}, "harness": None, "samples": [], "nondet": [],
        "tags": set(),
    }
    try:
        all_cpus = None
        steps0 = 0
        if stride > 1 and getattr(spec, "pin_workers", True) and \
                hasattr(os, "sched_setaffinity"):
            # baton hand-offs between the threads of one worker are far
            # cheaper when they stay on one core - as long as that core is
            # ours; when something else competes for it every hand-off waits
            # for a time slice, so the pinning is dropped again if the first
            # runs turn out slow (wall clock used for this budget decision
            # only, never visible to a simulated run)
            try:
                all_cpus = os.sched_getaffinity(0)
                cpus = sorted(all_cpus)
                os.sched_setaffinity(0, {cpus[lo % len(cpus)]})
            except OSError:
                all_cpus = None
        t_mark = report.Stopwatch()
        for idx in range(lo, hi, stride):
            if out["runs"] % 50 == 0:
                faulthandler.dump_traceback_later(3600, exit=True)
            if out["runs"] == 10:
                # warm-up (first compilation of the modules, imports) is over
                t_mark = report.Stopwatch()
                steps0 = out["steps"]
            if all_cpus is not None and out["runs"] in (40, 200, 1000, 5000):
                per = t_mark.elapsed() / max(1, out["steps"] - steps0)
                if per > spec.slow_step_s:
                    try:
                        os.sched_setaffinity(0, all_cpus)
                    except OSError:
                        pass
                    all_cpus = None
                    out["probes"]["worker_unpinned"] += 1
            res = run_idx(spec, seed, idx)
            out["runs"] += 1
            out["faults"].update(res.get("faults", {}))
            out["probes"].update(res.get("probes", {}))
            out["sim_us"] += res.get("sim_us", 0)
            out["steps"] += res.get("steps", 0)
            if res.get("nontrivial"):
                out["nontrivial"] += 1
                out["sigs"].add(derive_seed(res["sig"]))
            for tag in res.get("tags", ()):
                out["tags"].add(tag)
            for key, detail in keyed_violations(spec, res):
                lst = out["viol"].setdefault(key, [])
                if len(lst) < max_keep:
                    lst.append((idx, detail, res["record"]))
            if selftest_every and idx % selftest_every == 0:
                again = run_idx(spec, seed, idx)
                if again["digest"] != res["digest"]:
                    out["nondet"].append(idx)
                out["digests"][idx] = res["digest"]
        faulthandler.cancel_dump_traceback_later()
    except BaseException:
        out["harness"] = traceback.format_exc()
    return out


def explore(spec, seed, n_runs, workers=None, selftest_every=0,
            wall_cap_s=None, chunk=None, base=0):
    """Run indices 0..n_runs-1.  Returns merged stats."""
    global _SPEC
    _SPEC = spec
    workers = workers or int(os.environ.get("VERIF_WORKERS", "0")) or \
        min(16, os.cpu_count() or 1)
    workers = max(1, min(workers, n_runs))
    merged = {
        "runs": 0, "faults": Counter(), "probes": Counter(), "sigs": set(),
        "viol": {}, "sim_us": 0, "steps": 0, "nontrivial": 0,
        "digests": {}, "nondet": [], "workers": workers, "tags": set(),
    }
    jobs = [(seed, base + w, base + n_runs, workers, selftest_every, 8)
            for w in range(workers)]
    if workers == 1:
        results = [_worker(jobs[0])]
    else:
        ctx = multiprocessing.get_context("fork")
        with ProcessPoolExecutor(max_workers=workers, mp_context=ctx) as ex:
            futs = [ex.submit(_worker, j) for j in jobs]
            results = []
            for f in futs:
                try:
                    results.append(f.result(timeout=wall_cap_s))
                except Exception as e:  # broken pool, timeout
                    raise HarnessError(f"worker failed: {e!r}")
    for r in results:
        if r["harness"]:
            raise HarnessError(r["harness"])
        merged["runs"] += r["runs"]
        merged["faults"].update(r["faults"])
        merged["probes"].update(r["probes"])
        merged["sigs"] |= r["sigs"]
        merged["sim_us"] += r["sim_us"]
        merged["steps"] += r["steps"]
        merged["nontrivial"] += r["nontrivial"]
        merged["digests"].update(r["digests"])
        merged["nondet"] += r["nondet"]
        merged["tags"] |= r["tags"]
        for oid, lst in r["viol"].items():
            merged["viol"].setdefault(oid, []).extend(lst)
    for oid in merged["viol"]:
        merged["viol"][oid].sort(key=lambda t: (len(t[2]), t[0]))
    return merged


def fresh_interpreter_digests(check_file, seed, idxs, hashseed):
    """Re-run some indices in a fresh interpreter with another
    PYTHONHASHSEED and return {idx: digest}."""
    env = dict(os.environ)
    env["PYTHONHASHSEED"] = str(hashseed)
    env["VERIF_SEED"] = str(seed)
    cmd = [sys.executable, "-B", check_file, "--digests",
           ",".join(map(str, idxs))]
    p = subprocess.run(cmd, env=env, capture_output=True, text=True,
                       timeout=600)
    if p.returncode != 0:
        raise HarnessError(
            f"fresh interpreter digests failed rc={p.returncode}\n"
            + p.stdout[-2000:] + p.stderr[-2000:])
    line = [l for l in p.stdout.splitlines() if l.startswith("DIGESTS ")]
    return {int(k): v for k, v in json.loads(line[-1][8:]).items()}


def minimise(spec, key, record, max_runs=400, wall_s=40, run_index=0):
    sw = report.Stopwatch()

    def still(cand):
        try:
            r = run_replay(spec, cand, run_index=run_index)
        except Exception:
            return False
        return any(k == key for k, _ in keyed_violations(spec, r))

    best, runs = shrink(record, still, max_runs=max_runs,
                        deadline=lambda: sw.elapsed() > wall_s)
    return best, runs


def main(spec, check_file, argv=None):
    """Common command line of every check.

    --tier quick|thorough   (or VERIF_TIER)   explore
    --runs N                override the tier's run count
    --replay FILE           re-execute a replay file in this fresh process
    --digests i,j,k         print history digests of some run indices
    """
    import argparse

    ap = argparse.ArgumentParser()
    ap.add_argument("--tier", default=os.environ.get("VERIF_TIER", "quick"))
    ap.add_argument("--runs", type=int, default=0)
    ap.add_argument("--replay")
    ap.add_argument("--digests")
    ap.add_argument("--show", type=int, default=None,
                    help="render one run index and exit")
    ap.add_argument("--no-fresh", action="store_true")
    args = ap.parse_args(argv)
    tier = args.tier if args.tier in ("quick", "thorough") else "quick"
    seed = report.env_seed()
    prop = spec.prop
    sw = report.Stopwatch()

    try:
        if args.digests:
            idxs = [int(x) for x in args.digests.split(",") if x]
            d = {i: run_idx(spec, seed, i)["digest"] for i in idxs}
            print("DIGESTS " + json.dumps(d))
            return report.EXIT_HELD
        if args.show is not None:
            r = run_idx(spec, seed, args.show, render=True)
            print(json.dumps({k: r[k] for k in r if k != "record"},
                             indent=1, default=str))
            return report.EXIT_HELD
        if args.replay:
            return _replay(spec, args.replay)
        return _explore_main(spec, check_file, tier, seed, args, sw)
    except HarnessError as e:
        print(f"HARNESS-ERROR property={prop}: {e}")
        return report.EXIT_HARNESS
    except Exception:  # never let a harness bug look like a verdict
        print(f"HARNESS-ERROR property={prop}: unexpected exception\n"
              + traceback.format_exc())
        return report.EXIT_HARNESS


def _replay(spec, path):
    with open(path) as f:
        rp = json.load(f)
    if rp.get("custom"):
        return spec.replay_custom(rp, path)
    r = run_replay(spec, rp["choices"], render=True,
                   run_index=rp.get("run_index", 0))
    keys = [k for k, _ in keyed_violations(spec, r)]
    print(json.dumps(r.get("render"), indent=1, default=str))
    print(f"replay digest   {r['digest']}")
    print(f"recorded digest {rp.get('digest')}")
    same = not rp.get("digest") or r["digest"] == rp["digest"]
    want = rp.get("key")
    if not same:
        print("note: history digest differs from the recorded one - the code "
              "under test does not behave as it did when this was recorded")
    if want in keys or (want is None and keys):
        for k, d in keyed_violations(spec, r):
            print(f"  {k}: {d}")
        print(f"VIOLATION property={spec.prop} replay={path}")
        return report.EXIT_VIOLATION
    print(f"replay did not reproduce {want}; got {keys}")
    return report.EXIT_HELD


def _explore_main(spec, check_file, tier, seed, args, sw):
    prop = spec.prop
    n_runs = args.runs or spec.tiers[tier]
    every = max(1, n_runs // spec.selftest_samples)
    merged = explore(spec, seed, n_runs, selftest_every=every)
    k = getattr(spec, "scenario_runs", {}).get(tier, 0)
    if k:
        # scenario runs: the same seeded machinery, with parts of the drawn
        # configuration pinned to situations the free search only meets now
        # and then (indices from SCENARIO_BASE on)
        extra = explore(spec, seed, k, base=SCENARIO_BASE)
        for key2 in ("runs", "sim_us", "steps", "nontrivial"):
            merged[key2] += extra[key2]
        merged["faults"].update(extra["faults"])
        merged["probes"].update(extra["probes"])
        merged["sigs"] |= extra["sigs"]
        merged["tags"] |= extra["tags"]
        merged["nondet"] += extra["nondet"]
        for key2, lst in extra["viol"].items():
            merged["viol"].setdefault(key2, []).extend(lst)

    # determinism self-test: same index twice in-process (done in workers),
    # and again in a fresh interpreter, other PYTHONHASHSEED, one worker.
    if merged["nondet"]:
        raise HarnessError(
            f"non-deterministic runs (same process): {merged['nondet'][:5]}")
    fresh_checked = 0
    if not args.no_fresh and merged["digests"]:
        idxs = sorted(merged["digests"])[: spec.fresh_samples]
        hs = (int(os.environ.get("PYTHONHASHSEED", "0") or 0)
              if os.environ.get("PYTHONHASHSEED", "").isdigit() else 0) + 7
        fresh = fresh_interpreter_digests(check_file, seed, idxs, hs)
        bad = [i for i in idxs if fresh.get(i) != merged["digests"][i]]
        if bad:
            raise HarnessError(
                f"non-deterministic runs (fresh interpreter, "
                f"PYTHONHASHSEED={hs}): {bad[:5]}")
        fresh_checked = len(idxs)

    known = {k["id"]: k for k in report.load_known_findings(prop)}
    new_violation_paths = []
    known_seen = {}
    samples_v = []
    for key in sorted(merged["viol"]):
        idx, detail, record = merged["viol"][key][0]
        best, shrink_runs = minimise(spec, key, record,
                                     max_runs=spec.shrink_runs,
                                     wall_s=spec.shrink_wall_s,
                                     run_index=idx)
        r = run_replay(spec, best, render=True, run_index=idx)
        kd = [(k, d) for k, d in keyed_violations(spec, r) if k == key]
        if not kd:  # cannot happen: shrink only keeps reproducing lists
            raise HarnessError(f"minimised replay lost violation {key}")
        payload = {
            "property": prop, "key": key, "detail": kd[0][1],
            "verif_seed": seed, "run_index": idx,
            "choices": r["record"], "digest": r["digest"],
            "shrink_runs": shrink_runs,
            "original_len": len(record), "render": r.get("render"),
            "replay_cmd": f"/venv/bin/python -B checks/{prop.lower()}.py "
                          f"--replay <this file>",
        }
        if "|known:" in key:
            fid = key.split("|known:")[1]
            known_seen[fid] = (len(merged["viol"][key]), kd[0][1])
            continue
        name = f"{key.replace('|', '_').replace(':', '_')}-seed{seed}-run{idx}"
        path = report.write_replay(prop, name, payload)
        new_violation_paths.append((key, path, kd[0][1]))
        samples_v.append({"key": key, "detail": kd[0][1]})

    extra_cov = {}
    if hasattr(spec, "extra_phase"):
        ex = spec.extra_phase(seed, tier, n_runs, merged)
        extra_cov = ex.get("coverage", {})
        for key, detail, payload in ex.get("violations", []):
            if "|known:" in key:
                fid = key.split("|known:")[1]
                known_seen.setdefault(fid, (1, detail))
                continue
            name = (f"{key.replace('|', '_').replace(':', '_')}"
                    f"-seed{seed}-{payload.get('name', 'x')}")
            payload = dict(payload, property=prop, key=key, detail=detail,
                           custom=True)
            path = report.write_replay(prop, name, payload)
            new_violation_paths.append((key, path, detail))
            samples_v.append({"key": key, "detail": detail})

    for fid in sorted(known_seen):
        what = known.get(fid, {}).get("what", "")
        print(f"KNOWN-FINDING: property={prop} {fid}: {what}")
    for fid in sorted(set(known) - set(known_seen)):
        print(f"note: listed finding {fid} was not re-observed in this run")

    # evidence
    samples = []
    for i in range(min(3, n_runs)):
        r = run_idx(spec, seed, i, render=True)
        samples.append({"run_index": i, "render": r.get("render"),
                        "digest": r["digest"]})
    wall = sw.elapsed()
    coverage = {
        "evaluations": merged["runs"],
        "distinct_nontrivial": len(merged["sigs"]),
        "nontrivial_runs": merged["nontrivial"],
        "rule": spec.rule,
        "samples": samples,
        "runs_per_hour": int(merged["runs"] / max(wall, 1e-6) * 3600),
        "seeds": {"VERIF_SEED": seed, "run_indices": [0, n_runs - 1],
                  "per_run_seed": "sha256((property, VERIF_SEED, index))"},
        "sim_time_s": round(merged["sim_us"] / 1e6, 3),
        "scheduler_steps": merged["steps"],
        "faults_fired": dict(sorted(merged["faults"].items())),
        "probes": dict(sorted(merged["probes"].items())),
        "components_real": spec.components_real,
        "components_stub": spec.components_stub,
        "workers": merged["workers"],
        "determinism_selftest": {
            "same_process_reruns": len(merged["digests"]),
            "fresh_interpreter_reruns": fresh_checked,
            "mismatches": 0,
        },
        "known_findings_reobserved": {k: v[0] for k, v in known_seen.items()},
        "new_violations": samples_v,
    }
    if merged["tags"]:
        groups = Counter(t.split(":", 1)[0] for t in merged["tags"])
        coverage["distinct_by_tag"] = dict(sorted(groups.items()))
    coverage.update(extra_cov)
    report.write_evidence(prop, tier, seed, coverage, wall,
                          len(new_violation_paths), spec.assumptions)
    print(f"{prop} tier={tier} seed={seed} runs={merged['runs']} "
          f"distinct_nontrivial={len(merged['sigs'])} "
          f"sim_time_s={merged['sim_us'] / 1e6:.1f} wall_s={wall:.1f} "
          f"faults={sum(merged['faults'].values())}")
    if new_violation_paths:
        for key, path, detail in new_violation_paths:
            print(f"  {key}: {detail}")
            print(f"VIOLATION property={prop} replay={path}")
        return report.EXIT_VIOLATION
    print(f"OK property={prop} held on everything explored")
    return report.EXIT_HELD
