"""Seeded generator of small C translation units (compile-only subjects for
C30).  The programs only have to *compile*; they are built to have many
simultaneously live temporaries (register pressure, spills, coalescing),
large constants and string data (literal pools), several functions, globals
and calls (symbols, relocations), loops / if / switch (many blocks, phis).

Profiles restrict the operators to what a back-end can select:
  rich   : + - * / % & | ^ << >> compare, int/char/short, arrays, calls
  basic  : no * / %
  tiny   : basic, few variables, no switch, no arrays of int
"""

BIGS = ["305419896", "65535", "65536", "-559038737", "2147483647", "4096",
        "255", "256", "-1", "1000000", "123456789", "0x7fff", "0x12345"]
WORDS = ["hello", "ppci", "x", "", "determinism", "a b c", "0123456789",
         "%d\\n", "zz"]


class CGen:
    def __init__(self, ch, profile="rich", fn_prefix="f", glob_prefix="g",
                 pointers=False):
        self.ch = ch
        self.profile = profile
        self.fn_prefix = fn_prefix
        self.glob_prefix = glob_prefix
        self.pointers = pointers and profile == "rich"
        self.lines = []
        self.funcs = []  # (name, nparams)
        self.globals_ = []
        self.arrays = []
        self.ptrs = []  # int * globals initialised with an address
        self.strtabs = []  # char *t[n] = {"..", ..}
        self.fptrs = []  # (name, nparams)
        self.extras = []  # struct fields, enum constants, typed globals

    # ---------------------------------------------------------------- exprs
    def const(self):
        ch = self.ch
        if self.profile == "micro":
            return str(ch.draw(100, "microconst"))
        if ch.chance(1, 3, "bigconst"):
            return ch.pick(BIGS, "big")
        if self.profile == "rich" and ch.chance(1, 12, "predefmacro"):
            # deterministic predefined macros (per translation unit)
            return ch.pick(["__COUNTER__", "__LINE__", "__COUNTER__",
                            "__STDC_HOSTED__", "(int)(__STDC_VERSION__ / 100)"],
                           "macro")
        return str(ch.draw(17, "small"))

    def binops(self):
        if self.profile == "micro":
            return ["+", "-", "+"]
        ops = ["+", "-", "&", "|", "^"]
        if self.profile == "rich":
            ops += ["*", "*", "/", "%"]
        return ops

    def expr(self, vars_, depth):
        ch = self.ch
        if depth <= 0 or ch.chance(1, 4, "leaf"):
            k = ch.weighted([5, 2, 1, 1], "leafkind")
            if k == 0 or not vars_:
                return ch.pick(vars_, "var") if vars_ else self.const()
            if k == 1:
                return self.const()
            if k == 2 and self.globals_:
                return ch.pick(self.globals_, "glob")
            if k == 3 and self.arrays:
                a, n = ch.pick(self.arrays, "arr")
                idx = ch.pick(vars_, "idxvar") if vars_ else "1"
                return f"{a}[({idx}) & {n - 1}]"
            if k == 3 and self.ptrs:
                return f"(*{ch.pick(self.ptrs, 'ptr')})"
            if k == 1 and self.extras and ch.chance(1, 2, "extraleaf"):
                return ch.pick(self.extras, "extra")
            if k == 2 and self.strtabs:
                t, n = ch.pick(self.strtabs, "strtab")
                idx = ch.pick(vars_, "stridx") if vars_ else "1"
                return f"{t}[({idx}) & {n - 1}][0]"
            return self.const()
        if self.profile == "micro":
            # 16 bit and minimal back-ends: additive expressions and calls
            k = ch.weighted([8, 0, 0, 0, 2], "exprkind")
        else:
            k = ch.weighted([8, 2, 1, 2, 1], "exprkind")
        if self.profile == "rich" and ch.chance(1, 16, "ternary"):
            return (f"({self.expr(vars_, depth - 1)} ? "
                    f"{self.expr(vars_, depth - 1)} : "
                    f"{self.expr(vars_, depth - 1)})")
        if k == 0:
            op = ch.pick(self.binops(), "binop")
            lhs = self.expr(vars_, depth - 1)
            rhs = self.expr(vars_, depth - 1)
            if op in ("/", "%"):
                rhs = f"(({rhs}) | 1)"
            return f"({lhs} {op} {rhs})"
        if k == 1:
            op = ch.pick(["<<", ">>"], "shift")
            return f"({self.expr(vars_, depth - 1)} {op} {1 + ch.draw(7, 'sh')})"
        if k == 2:
            op = ch.pick(["-", "~", "!"], "unop")
            return f"({op}{self.expr(vars_, depth - 1)})"
        if k == 3:
            op = ch.pick(["<", ">", "==", "!=", "<=", ">="], "cmp")
            return (f"({self.expr(vars_, depth - 1)} {op} "
                    f"{self.expr(vars_, depth - 1)})")
        if self.fptrs and ch.chance(1, 3, "viafptr"):
            name, n = ch.pick(self.fptrs, "fptr")
            args = ", ".join(self.expr(vars_, depth - 2) for _ in range(n))
            return f"{name}({args})"
        if self.funcs and self.profile not in ("tiny",):
            name, n = ch.pick(self.funcs, "callee")
            args = ", ".join(self.expr(vars_, depth - 2) for _ in range(n))
            return f"{name}({args})"
        return self.expr(vars_, depth - 1)

    # ----------------------------------------------------------- statements
    def block(self, vars_, depth, indent):
        ch = self.ch
        pad = "  " * indent
        out = []
        n = 1 + ch.draw(4, "nstmt")
        for _ in range(n):
            kinds = [6, 2, 2,
                     1 if self.profile not in ("tiny", "micro") else 0,
                     1 if self.profile != "micro" else 0]
            k = ch.weighted(kinds, "stmt") if depth > 0 else 0
            if k == 0:
                tgt = ch.pick(vars_, "tgt")
                op = ch.pick(["=", "+=", "^=", "-="] if self.profile != "micro"
                             else ["=", "=", "+=", "-="], "asg")
                out.append(f"{pad}{tgt} {op} {self.expr(vars_, 2)};")
            elif k == 1:
                cond = self.expr(vars_, 2)
                if self.profile == "micro":
                    cond = (f"{self.expr(vars_, 1)} "
                            f"{ch.pick(['<', '>', '==', '!='], 'mcmp')} "
                            f"{self.expr(vars_, 1)}")
                out.append(f"{pad}if ({cond}) {{")
                out += self.block(vars_, depth - 1, indent + 1)
                if ch.chance(1, 2, "else"):
                    out.append(f"{pad}}} else {{")
                    out += self.block(vars_, depth - 1, indent + 1)
                out.append(f"{pad}}}")
            elif k == 2:
                iv = ch.pick(vars_, "loopvar")
                lim = 1 + ch.draw(9, "lim")
                body_vars = [v for v in vars_ if v != iv] or vars_
                form = ch.weighted([4, 1, 1], "loopform") \
                    if self.profile == "rich" else 0
                if form == 0:
                    out.append(f"{pad}for ({iv} = 0; {iv} < {lim}; "
                               f"{iv} += 1) {{")
                    out += self.block(body_vars, depth - 1, indent + 1)
                    out.append(f"{pad}}}")
                elif form == 1:
                    out.append(f"{pad}{iv} = {lim};")
                    out.append(f"{pad}while ({iv} > 0) {{")
                    out += self.block(body_vars, depth - 1, indent + 1)
                    out.append(f"{pad}  {iv} -= 1;")
                    out.append(f"{pad}  if ({self.expr(body_vars, 1)} == 77) "
                               f"break;")
                    out.append(f"{pad}}}")
                else:
                    out.append(f"{pad}{iv} = 0;")
                    out.append(f"{pad}do {{")
                    out += self.block(body_vars, depth - 1, indent + 1)
                    out.append(f"{pad}  {iv} += 1;")
                    out.append(f"{pad}}} while ({iv} < {lim});")
            elif k == 3:
                sparse = self.profile == "rich" and ch.chance(1, 3, "sparse")
                mask = 127 if sparse else 3
                out.append(f"{pad}switch ({self.expr(vars_, 1)} & {mask}) {{")
                labels = list(range(1 + ch.draw(3, "ncase")))
                if sparse:
                    labels = sorted({ch.draw(128, "caseval")
                                     for _ in range(2 + ch.draw(6, "nsparse"))})
                # the default label may stand anywhere among the cases
                dpos = ch.draw(len(labels) + 1, "defaultpos") \
                    if ch.chance(1, 2, "defaultanywhere") else len(labels)
                arms = [f"case {c}:" for c in labels]
                arms.insert(dpos, "default:")
                for arm in arms:
                    out.append(f"{pad}{arm}")
                    out += self.block(vars_, 0, indent + 1)
                    out.append(f"{pad}  break;")
                out.append(f"{pad}}}")
            else:
                if self.arrays:
                    a, n_ = ch.pick(self.arrays, "starr")
                    out.append(f"{pad}{a}[({ch.pick(vars_, 'stidx')}) & "
                               f"{n_ - 1}] = {self.expr(vars_, 2)};")
                elif self.globals_:
                    out.append(f"{pad}{ch.pick(self.globals_, 'stglob')} = "
                               f"{self.expr(vars_, 2)};")
        return out

    def function(self, idx):
        ch = self.ch
        tiny = self.profile in ("tiny", "micro")
        nparams = ch.draw(3 if tiny else 5, "nparams")
        nlocals = 1 + ch.draw(3 if tiny else 9, "nlocals")
        name = f"{self.fn_prefix}{idx}"
        params = [f"p{i}" for i in range(nparams)]
        locals_ = [f"v{i}" for i in range(nlocals)]
        static = "static " if ch.chance(1, 4, "static") and idx > 0 else ""
        out = [f"{static}int {name}("
               + (", ".join("int " + p for p in params) or "void") + ") {"]
        vars_ = list(params)
        for v in locals_:
            out.append(f"  int {v} = {self.expr(vars_, 2)};")
            vars_.append(v)
        if self.profile == "rich":
            for j in range(ch.weighted([4, 2, 1], "nstatic")):
                init = f" = {ch.draw(100, 'staticinit')}" \
                    if ch.chance(1, 2, "hasstaticinit") else ""
                out.append(f"  static int s{j}{init};")
                out.append(f"  s{j} += {ch.pick(vars_, 'staticsrc') if vars_ else 1};")
                vars_.append(f"s{j}")
        out += self.block(vars_, 2 if not tiny else 1, 1)
        # keep everything live until the end: pressure
        out.append("  return " + " + ".join(vars_) + ";")
        out.append("}")
        self.funcs.append((name, nparams))
        return out

    def unit(self):
        ch = self.ch
        tiny = self.profile in ("tiny", "micro")
        out = []
        gp = self.glob_prefix
        for i in range(ch.draw(4, "nglob")):
            init = f" = {self.const()}" if ch.chance(1, 2, "ginit") else ""
            out.append(f"int {gp}{i}{init};")
            self.globals_.append(f"{gp}{i}")
        if self.profile == "rich" and ch.chance(1, 2, "aggregates"):
            out.append("enum E0 { EA, EB = 7, EC };")
            out.append("typedef struct { int x; char c; int y; } rec_t;")
            out.append(f"rec_t r0 = {{{self.const()}, 2, {self.const()}}};")
            out.append("rec_t ra[2];")
            out.append("union U0 { int i; char c[4]; };")
            out.append("union U0 u0;")
            out.append(f"short h0 = {ch.draw(1000, 'shortinit')};")
            out.append("unsigned char uc0 = 200;")
            out.append("char fn0[] = __FILE__;")
            out.append("struct B0 { unsigned a:3; unsigned b:5; int c; };")
            out.append(f"struct B0 bf0 = {{1, {ch.draw(30, 'bfb')}, "
                       f"{self.const()}}};")
            out.append(f"rec_t rb[2] = {{{{{self.const()}, 2, 3}}, "
                       f"{{4, 5, {self.const()}}}}};")
            self.extras += ["EB", "EC", "r0.x", "r0.y", "r0.c", "ra[1].y",
                            "u0.c[1]", "u0.i", "h0", "uc0", "fn0[1]",
                            "sizeof(__FILE__)", "bf0.a", "bf0.b", "bf0.c",
                            "rb[1].y", "rb[0].c"]
        if self.pointers:
            # data relocations: globals initialised with addresses
            for i, g in enumerate(self.globals_[: ch.draw(3, "nptr")]):
                out.append(f"int *q{i} = &{g};")
                self.ptrs.append(f"q{i}")
            for i in range(ch.draw(2, "nstrtab")):
                n = ch.pick([2, 4], "strtabn")
                vals = ", ".join(f'"{ch.pick(WORDS, "tword")}"'
                                 for _ in range(n))
                out.append(f"char *t{i}[{n}] = {{{vals}}};")
                self.strtabs.append((f"t{i}", n))
        if not tiny:
            for i in range(ch.draw(3, "narr")):
                n = ch.pick([2, 4, 8], "arrn")
                if ch.chance(1, 2, "ainit"):
                    vals = ", ".join(self.const() for _ in range(n))
                    out.append(f"int a{i}[{n}] = {{{vals}}};")
                else:
                    out.append(f"int a{i}[{n}];")
                self.arrays.append((f"a{i}", n))
            for i in range(ch.draw(3, "nstr")):
                out.append(f'char s{i}[] = "{ch.pick(WORDS, "word")}";')
        nfun = 1 + ch.draw(2 if tiny else 4, "nfun")
        for i in range(nfun):
            if i == 1 and self.profile == "rich" and \
                    ch.chance(1, 3, "tailrec"):
                # one self tail-recursive function (tail call optimisation)
                name = f"{self.fn_prefix}t"
                out.append(f"int {name}(int a, int b) {{ if (a <= 0) "
                           f"{{ return b; }} return {name}(a - 1, b + a); }}")
                self.funcs.append((name, 2))
            out += self.function(i)
            if self.pointers and ch.chance(1, 3, "mkfptr"):
                name, n = self.funcs[-1]
                params = ", ".join(["int"] * n) or "void"
                out.append(f"int (*fp{i})({params}) = {name};")
                self.fptrs.append((f"fp{i}", n))
        return "\n".join(out) + "\n"


def gen_unit(ch, profile="rich", **kw):
    return CGen(ch, profile, **kw).unit()


def gen_project(ch, tag):
    """A small multi-module program: a main unit calling functions that live
    in separate library members (to be archived and pulled in by the linker),
    plus an unused member."""
    nmem = 2 + ch.draw(4, "nmembers")
    members = []
    for i in range(nmem):
        body = ch.pick(["(a << 3) ^ b", "a * 31 + b", "a - b + 7",
                        "(a & b) | 1", "a + b + 12345678"], "membody")
        helper = ""
        if ch.chance(1, 3, "memhelper"):
            helper = f"static int h{tag}_{i}(int x) {{ return x + {i}; }}\n"
            body = f"h{tag}_{i}({body})"
        members.append(helper + f"int lib{i}(int a, int b) "
                       f"{{ return {body}; }}\n")
    used = [i for i in range(nmem) if not ch.chance(1, 4, "unusedmember")] \
        or [0]
    decl = "".join(f"extern int lib{i}(int a, int b);\n" for i in used)
    calls = " + ".join(f"lib{i}(x, {i + 1})" for i in ch.perm(used, "callord"))
    main = decl + f"int entry{tag}(int x) {{ return {calls}; }}\n"
    return main, members, f"entry{tag}"


def gen_c3_unit(ch, tag="m", imports=()):
    """Small C3 module: globals, constants, a struct, several functions with
    many live locals, while loops, if/else, calls - also into the public
    functions of earlier modules of the same build (`imports` is a list of
    (module name, [(function, nparams)], [public globals]))."""
    out = [f"module mod{tag};"]
    for modname, _, _ in imports:
        out.append(f"import {modname};")
    globs = []
    for i in range(ch.draw(4, "c3nglob")):
        out.append(f"public var int g{i};")
        globs.append(f"g{i}")
    if ch.chance(1, 2, "c3consts"):
        out.append(f"const int CA = {1 + ch.draw(99, 'c3ca')};")
        out.append("type struct { int x; int y; } pt_t;")
        out.append("var pt_t pa;")
        globs += ["CA", "pa.x", "pa.y"]
    for modname, _, pubs in imports:
        globs += [f"{modname}.{g}" for g in pubs]
    funcs = []
    for modname, fns, _ in imports:
        funcs += [(f"{modname}.{f}", n) for f, n in fns]

    def expr(vars_, depth):
        if depth <= 0 or ch.chance(1, 4, "c3leaf"):
            k = ch.weighted([5, 2, 1], "c3leafkind")
            if k == 0 and vars_:
                return ch.pick(vars_, "c3var")
            if k == 2 and globs:
                return ch.pick(globs, "c3glob")
            return ch.pick(["1", "2", "7", "100", "65535", "305419896",
                            "4096"], "c3const")
        k = ch.weighted([8, 2], "c3exprkind")
        if k == 0 or not funcs:
            op = ch.pick(["+", "-", "*", "&", "|", "^"], "c3op")
            return f"({expr(vars_, depth - 1)} {op} {expr(vars_, depth - 1)})"
        name, n = ch.pick(funcs, "c3callee")
        return name + "(" + ", ".join(expr(vars_, depth - 2)
                                      for _ in range(n)) + ")"

    def block(vars_, depth, pad):
        lines = []
        for _ in range(1 + ch.draw(4, "c3nstmt")):
            k = ch.weighted([6, 2, 2], "c3stmt") if depth > 0 else 0
            if k == 0:
                lines.append(f"{pad}{ch.pick(vars_, 'c3tgt')} = "
                             f"{expr(vars_, 2)};")
            elif k == 1:
                lines.append(f"{pad}if ({expr(vars_, 1)} < "
                             f"{expr(vars_, 1)}) {{")
                lines += block(vars_, depth - 1, pad + "  ")
                lines.append(f"{pad}}} else {{")
                lines += block(vars_, depth - 1, pad + "  ")
                lines.append(f"{pad}}}")
            else:
                iv = ch.pick(vars_, "c3loopvar")
                lines.append(f"{pad}{iv} = 0;")
                lines.append(f"{pad}while ({iv} < {1 + ch.draw(9, 'c3lim')}) "
                             f"{{")
                body = [v for v in vars_ if v != iv] or vars_
                lines += block(body, depth - 1, pad + "  ")
                lines.append(f"{pad}  {iv} = {iv} + 1;")
                lines.append(f"{pad}}}")
        return lines

    for i in range(1 + ch.draw(4, "c3nfun")):
        nparams = ch.draw(4, "c3nparams")
        params = [f"p{j}" for j in range(nparams)]
        out.append(f"public function int f{i}("
                   + ", ".join("int " + q for q in params) + ")")
        out.append("{")
        vars_ = list(params)
        nloc = 1 + ch.draw(8, "c3nlocals")
        for j in range(nloc):
            out.append(f"  var int v{j};")
        for j in range(nloc):
            out.append(f"  v{j} = {expr(vars_, 2)};")
            vars_.append(f"v{j}")
        out += block(vars_, 2, "  ")
        out.append("  return " + " + ".join(vars_) + ";")
        out.append("}")
        funcs.append((f"f{i}", nparams))
    own = [(f, n) for f, n in funcs if "." not in f]
    pubs = [g for g in globs if g.startswith("g")]
    return "\n".join(out) + "\n", (f"mod{tag}", own, pubs)


def gen_bf(ch):
    """Random brainfuck program with balanced brackets."""
    out = []
    depth = 0
    for _ in range(5 + ch.draw(40, "bflen")):
        k = ch.weighted([4, 4, 3, 3, 1, 1, 2, 2], "bfop")
        if k == 6:
            out.append("[")
            depth += 1
        elif k == 7:
            if depth > 0:
                out.append("]")
                depth -= 1
        else:
            out.append("+-><.,"[k])
    return "".join(out) + "]" * depth


def gen_pascal(ch, tag="p"):
    """Small Pascal program: globals, functions, while / if, arithmetic."""
    nv = 2 + ch.draw(5, "pasnvars")
    vars_ = [f"v{i}" for i in range(nv)]
    out = [f"program prog{tag};", "var " + ", ".join(vars_) + ": integer;"]
    funcs = []

    def expr(names, depth):
        if depth <= 0 or ch.chance(1, 3, "pasleaf"):
            if names and ch.chance(2, 3, "pasvar"):
                return ch.pick(names, "pasname")
            return str(ch.draw(200, "pasconst"))
        if funcs and ch.chance(1, 6, "pascall"):
            f = ch.pick(funcs, "pasfn")
            return f"{f}({expr(names, depth - 1)}, {expr(names, depth - 1)})"
        op = ch.pick(["+", "-", "*", "+"], "pasop")
        return f"({expr(names, depth - 1)} {op} {expr(names, depth - 1)})"

    def stmts(names, depth, pad):
        lines = []
        for _ in range(1 + ch.draw(3, "pasnstmt")):
            k = ch.weighted([5, 2, 2], "passtmt") if depth > 0 else 0
            if k == 0:
                lines.append(f"{pad}{ch.pick(names, 'pastgt')} := "
                             f"{expr(names, 2)};")
            elif k == 1:
                lines.append(f"{pad}if {expr(names, 1)} "
                             f"{ch.pick(['<', '>', '='], 'pascmp')} "
                             f"{expr(names, 1)} then")
                lines.append(f"{pad}begin")
                lines += stmts(names, depth - 1, pad + "  ")
                lines.append(f"{pad}end;")
            else:
                iv = ch.pick(names, "pasloop")
                lines.append(f"{pad}{iv} := 0;")
                lines.append(f"{pad}while {iv} < {1 + ch.draw(9, 'paslim')} do")
                lines.append(f"{pad}begin")
                body = [n for n in names if n != iv] or names
                lines += stmts(body, depth - 1, pad + "  ")
                lines.append(f"{pad}  {iv} := {iv} + 1;")
                lines.append(f"{pad}end;")
        return lines

    for i in range(ch.draw(3, "pasnfun")):
        name = f"fn{i}"
        out.append(f"function {name}(a: integer; b: integer): integer;")
        nloc = ch.draw(5, "pasnloc")
        locs = [f"l{j}" for j in range(nloc)]
        if locs:
            out.append("var " + ", ".join(locs) + ": integer;")
        out.append("begin")
        names = ["a", "b"]
        for l in locs:
            out.append(f"  {l} := {expr(names, 2)};")
            names.append(l)
        out.append(f"  {name} := {expr(names, 2)};")
        out.append("end;")
        funcs.append(name)
    out.append("begin")
    out += stmts(vars_, 2, "  ")
    out.append("end.")
    return "\n".join(out) + "\n"


def gen_python(ch):
    """Small typed Python functions (ppci's Python front-end)."""
    out = []
    funcs = []
    for i in range(1 + ch.draw(3, "pynfun")):
        name = f"pf{i}"
        out.append(f"def {name}(x: int, y: int) -> int:")
        names = ["x", "y"]
        for j in range(1 + ch.draw(4, "pynloc")):
            e = f"{ch.pick(names, 'pya')} {ch.pick(['+', '-', '*'], 'pyop')} " \
                f"{ch.pick(names + [str(ch.draw(50, 'pyc'))], 'pyb')}"
            out.append(f"    t{j} = {e}")
            names.append(f"t{j}")
        if ch.chance(1, 2, "pyloop"):
            out.append("    i = 0")
            out.append(f"    while i < {1 + ch.draw(9, 'pylim')}:")
            out.append(f"        {names[-1]} = {names[-1]} + i * "
                       f"{ch.pick(names, 'pyl')}")
            out.append("        i = i + 1")
        if funcs and ch.chance(1, 2, "pycall"):
            out.append(f"    {names[-1]} = {names[-1]} + "
                       f"{ch.pick(funcs, 'pyfn')}({names[0]}, 3)")
        out.append(f"    if {ch.pick(names, 'pyc1')} > "
                   f"{ch.draw(20, 'pyc2')}:")
        out.append(f"        return {ch.pick(names, 'pyr1')}")
        out.append("    return " + " + ".join(names))
        out.append("")
        funcs.append(name)
    return "\n".join(out) + "\n"
