"""Simulated byte stream with seeded segmentation / delay and fault filters,
plus socket / select look-alikes for ppci.binutils.dbg.gdb.transport."""

import errno

from . import sched


class Link:
    """One direction of a connection.  Bytes written are (optionally passed
    through a fault filter,) cut into chunks at seeded positions and delivered
    in order after seeded delays."""

    def __init__(self, sim, name, latency_us=0, jitter_us=0, cut_num=0,
                 filter=None, on_deliver=None):
        self.sim = sim
        self.name = name
        self.latency_us = latency_us
        self.jitter_us = jitter_us
        self.cut_num = cut_num  # chance/8 to cut after each byte
        self.filter = filter
        self.on_deliver = on_deliver
        self.buf = bytearray()  # delivered, not yet read
        self.sent = bytearray()  # everything written, before faults
        self.delivered = bytearray()  # everything delivered, after faults
        self.last_t = 0
        self.eof = False
        self.closing = False
        self.chunks = 0

    def write(self, data, stall_at=None, stall_us=0):
        """stall_at / stall_us: the link stalls for stall_us after the first
        stall_at bytes of this write (everything behind waits, in order)."""
        sim = self.sim
        ch = sim.ch
        data = bytes(data)
        if stall_at is not None and 0 < stall_at < len(data):
            self.write(data[:stall_at])
            self.last_t = max(self.last_t, sim.now) + stall_us
            self.write(data[stall_at:])
            return
        self.sent += data
        if self.filter is not None:
            data = self.filter(data)
        if not data:
            return
        pieces = []
        start = 0
        if self.cut_num and len(data) > 1:
            for i in range(1, len(data)):
                if ch.chance(self.cut_num, 8, "cut"):
                    pieces.append(data[start:i])
                    start = i
        pieces.append(data[start:])
        for piece in pieces:
            d = self.latency_us
            if self.jitter_us:
                d += ch.draw(self.jitter_us + 1, "jitter")
            t = max(self.last_t, sim.now + d)
            self.last_t = t
            self.chunks += 1
            sim.at(t, lambda p=piece: self._deliver(p), "deliver:" + self.name)

    def _deliver(self, piece):
        self.buf += piece
        self.delivered += piece
        self.sim.log(self.name, "deliver", bytes(piece))
        if self.on_deliver is not None:
            self.on_deliver(piece)

    def close(self):
        """Writer closes: EOF reaches the reader after everything in flight."""
        if self.closing:
            return
        self.closing = True
        self.sim.at(self.last_t, self._eof, "eof:" + self.name)

    def _eof(self):
        self.eof = True
        self.sim.log(self.name, "eof")

    def readable(self):
        return bool(self.buf) or self.eof


class SimSocket:
    """socket.socket look-alike bound to two Links by sim.net.connect()."""

    def __init__(self, family=None, type=None, proto=0):
        self.sim = sched.cur()
        self.rx = None
        self.tx = None
        self.closed = False
        self.addr = None

    def connect(self, addr):
        self.sim.yield_("sock.connect")
        self.addr = addr
        self.rx, self.tx = self.sim.net.connect(self, addr)

    def send(self, data):
        sim = self.sim
        sim.yield_("sock.send")
        if self.closed:
            raise OSError(errno.EBADF, "Bad file descriptor")
        if self.tx is None:
            raise OSError(errno.ENOTCONN, "not connected")
        if self.rx.eof or self.tx.closing:
            raise BrokenPipeError(errno.EPIPE, "Broken pipe")
        data = bytes(data)
        sim.log(sim.name(), "sock.send", data)
        self.tx.write(data)
        # the peer may answer before the caller executes its next statement
        sim.yield_("sock.sent")
        return len(data)

    sendall = send

    def recv(self, n):
        sim = self.sim
        sim.yield_("sock.recv")
        if self.closed:
            raise OSError(errno.EBADF, "Bad file descriptor")
        rx = self.rx
        if not rx.buf and not rx.eof:
            sim.block(rx.readable, None, "sock.recv.wait")
        out = bytes(rx.buf[:n])
        del rx.buf[:n]
        return out

    def recv_into(self, buffer, nbytes=0, flags=0):
        view = memoryview(buffer)
        n = nbytes or len(view)
        data = self.recv(n)
        view[: len(data)] = data
        return len(data)

    def readable(self):
        return self.rx is not None and self.rx.readable()

    def close(self):
        if not self.closed:
            self.closed = True
            if self.tx is not None:
                self.tx.close()

    def fileno(self):
        return 3

    def settimeout(self, t):
        pass

    def setsockopt(self, *a):
        pass


class SocketModule:
    """Stands in for the `socket` module inside transport.py."""

    AF_INET = 2
    SOCK_STREAM = 1
    error = OSError
    timeout = TimeoutError
    socket = SimSocket


class SelectModule:
    """Stands in for the `select` module inside transport.py.  A zero timeout
    poll that finds nothing parks the caller for one poll quantum of simulated
    time (or until something becomes readable): equivalent to the real busy
    loop, minus the spinning."""

    # A zero-timeout poll that finds nothing "costs" simulated time: 1 ms
    # for the first idle poll of a thread, doubling up to 250 ms while the
    # line stays silent, back to 1 ms as soon as something was readable.  The
    # poll still returns at once when data arrives, so a correct busy loop
    # behaves as in reality, while code that reacts to idle polls (sleeps,
    # back-off, counters) gets to see them at a realistic rate.
    POLL_MIN_US = 1_000
    POLL_MAX_US = 250_000

    @classmethod
    def select(cls, rlist, wlist, xlist, timeout=None):
        sim = sched.cur()
        sim.yield_("select")

        def ready():
            return [s for s in rlist if s.readable()]

        r = ready()
        if not r:
            if timeout is None:
                sim.block(lambda: bool(ready()), None, "select.wait")
            else:
                us = int(timeout * 1e6)
                if not us:
                    t = sim.me()
                    us = getattr(t, "poll_us", cls.POLL_MIN_US)
                    t.poll_us = min(2 * us, cls.POLL_MAX_US)
                sim.block(lambda: bool(ready()), us, "select.wait")
            r = ready()
        if r and sim.me() is not None:
            sim.me().poll_us = cls.POLL_MIN_US
        return r, list(wlist), []
