"""Reference GDB remote-serial-protocol framing, written from the GDB manual
(appendix "Remote Protocol", section "Overview"), independent of ppci:

  * a packet is  $ packet-data # checksum ; checksum = two hex digits (either
    case) of the sum of all packet-data bytes modulo 256;
  * the bytes '#' (0x23), '$' (0x24) and '}' (0x7d) in the payload are sent as
    '}' followed by the byte XOR 0x20; '*' (0x2a) is escaped likewise by this
    encoder (mandatory for stubs, harmless for the client); a receiver
    restores every '}' x  to  x XOR 0x20;
  * the receiver answers '+' to a packet with a good checksum, '-' otherwise;
  * outside packets '+' and '-' are acknowledgements, anything else is noise.

Run-length encoding ('*' n) is not part of the checked statement and is never
produced; a raw '*' inside a packet is treated as data.
"""

ESCAPED = (0x23, 0x24, 0x7D, 0x2A)


def escape(payload: bytes) -> bytes:
    out = bytearray()
    for b in payload:
        if b in ESCAPED:
            out.append(0x7D)
            out.append(b ^ 0x20)
        else:
            out.append(b)
    return bytes(out)


def unescape(body: bytes):
    """-> payload bytes, or None when a '}' is the last byte (malformed)."""
    out = bytearray()
    i = 0
    while i < len(body):
        b = body[i]
        if b == 0x7D:
            if i + 1 >= len(body):
                return None
            out.append(body[i + 1] ^ 0x20)
            i += 2
        else:
            out.append(b)
            i += 1
    return bytes(out)


def checksum(body: bytes) -> int:
    return sum(body) % 256


def encode(payload: bytes, upper=False) -> bytes:
    body = escape(payload)
    fmt = "%02X" if upper else "%02x"
    return b"$" + body + b"#" + (fmt % checksum(body)).encode()


HEX = b"0123456789abcdefABCDEF"


class Decoder:
    """Incremental decoder.  feed(byte) -> item or None.

    Items: ("ack", "+") ("ack", "-") ("noise", byte)
           ("pkt", good: bool, payload: bytes | None, raw: bytes)
    """

    def __init__(self):
        self.state = 0  # 0 idle, 1 body, 2 first digit, 3 second digit
        self.raw = bytearray()

    @property
    def in_packet(self):
        return self.state != 0

    def feed(self, b: int):
        if self.state == 0:
            if b == 0x24:
                self.state = 1
                self.raw = bytearray([b])
                return None
            if b == 0x2B:
                return ("ack", "+")
            if b == 0x2D:
                return ("ack", "-")
            return ("noise", b)
        self.raw.append(b)
        if self.state == 1:
            if b == 0x23:
                self.state = 2
            return None
        if self.state == 2:
            self.state = 3
            return None
        # second checksum digit: packet complete
        self.state = 0
        raw = bytes(self.raw)
        body = raw[1:-3]
        digits = raw[-2:]
        good = (digits[0] in HEX and digits[1] in HEX
                and int(digits.decode(), 16) == checksum(body))
        payload = unescape(body) if good else None
        if good and payload is None:
            good = False
        return ("pkt", good, payload, raw)

    def feed_all(self, data: bytes):
        out = []
        for b in data:
            it = self.feed(b)
            if it is not None:
                out.append(it)
        return out


def parse_stream(data: bytes):
    """All items of a complete byte stream (an unfinished packet at the end is
    reported as ("partial", raw))."""
    d = Decoder()
    out = d.feed_all(data)
    if d.in_packet:
        out.append(("partial", bytes(d.raw)))
    return out
