"""Evidence / replay writers, known-findings matching, exit conventions."""

import json
import os
import sys
import time as _time

VERIF = os.path.dirname(os.path.dirname(os.path.abspath(__file__)))
REPO = os.environ.get("VERIF_REPO", "/repo")
# evidence/ and replays/ are written below OUT (the self-test redirects them
# to its scratch directory so that mutant runs never touch /verif/evidence)
OUT = os.environ.get("VERIF_OUT", VERIF)

EXIT_HELD = 0
EXIT_VIOLATION = 1
EXIT_HARNESS = 2


def ensure_repo_on_path():
    """Checks must exercise /repo's working tree, nothing else."""
    if sys.path[0:1] != [REPO]:
        sys.path.insert(0, REPO)
    import ppci

    f = os.path.realpath(ppci.__file__)
    if not f.startswith(os.path.realpath(REPO) + os.sep):
        print(f"HARNESS-ERROR: ppci imported from {f}, not {REPO}")
        sys.exit(EXIT_HARNESS)
    return ppci


def env_seed():
    try:
        return int(os.environ.get("VERIF_SEED", "0"))
    except ValueError:
        return 0


def load_known_findings(prop):
    """known_findings.json: {"known": [{"property","id","what",...}],
    "fixed": ["fixed: property=.. <commit> <what>"]}.  Never written at run
    time."""
    path = os.path.join(VERIF, "known_findings.json")
    if not os.path.exists(path):
        return []
    with open(path) as f:
        data = json.load(f)
    return [k for k in data.get("known", []) if k.get("property") == prop]


def write_replay(prop, name, payload):
    d = os.path.join(OUT, "replays", prop)
    os.makedirs(d, exist_ok=True)
    path = os.path.join(d, name + ".json")
    with open(path, "w") as f:
        json.dump(payload, f, indent=1, sort_keys=True, default=str)
        f.write("\n")
    return path


def write_evidence(prop, tier, seed, coverage, wall_s, violations,
                   assumptions, level="exploration"):
    d = os.path.join(OUT, "evidence")
    os.makedirs(d, exist_ok=True)
    ev = {
        "property_id": prop,
        "tier": tier,
        "seed": seed,
        "level": level,
        "coverage": coverage,
        "assumptions": assumptions,
        "wall_s": round(wall_s, 3),
        "violations": violations,
    }
    path = os.path.join(d, prop + ".json")
    tmp = path + ".tmp"
    with open(tmp, "w") as f:
        json.dump(ev, f, indent=1, sort_keys=True, default=str)
        f.write("\n")
    os.replace(tmp, path)
    return path


class Stopwatch:
    """Wall clock for budgets and evidence only; never visible to a
    simulated run."""

    def __init__(self):
        self.t0 = _time.monotonic()

    def elapsed(self):
        return _time.monotonic() - self.t0
