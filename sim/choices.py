"""One integer decides everything.

`Choices` is the only source of randomness in every simulated run.  In
*generate* mode draws come from ``random.Random`` seeded from (VERIF_SEED,
run index); in *replay* mode they come from a recorded list of integers.  Every
draw is recorded, so a run is a pure function of its recorded list and the
code under test.

Convention: value 0 is always the simplest choice (first runnable thread,
natural order, no fault, shortest payload, smallest graph), so shrinking the
list towards zeros / shorter moves towards a fault free sequential run.

Nothing in here reads a clock or draws during logging.
"""

import hashlib
import random


def derive_seed(*parts):
    """Stable 64 bit seed from a tuple of ints / strs (independent of
    PYTHONHASHSEED)."""
    h = hashlib.sha256(repr(parts).encode()).digest()
    return int.from_bytes(h[:8], "big")


class Choices:
    def __init__(self, seed=None, replay=None, label=""):
        assert (seed is None) != (replay is None)
        self.seed = seed
        self.label = label
        self.record = []  # drawn values
        self.tags = []  # (tag, n) parallel to record
        self._replay = None if replay is None else list(replay)
        self._pos = 0
        self._rng = random.Random(seed) if replay is None else None
        self.overrun = 0  # draws past the end of a replay list

    @property
    def replaying(self):
        return self._replay is not None

    def draw(self, n, tag=""):
        """Integer in [0, n).  n >= 1."""
        if n <= 1:
            v = 0
            if n < 1:
                raise ValueError("draw(n<1)")
            # still recorded so that positions stay aligned between modes
        elif self._replay is None:
            v = self._rng.randrange(n)
        else:
            if self._pos < len(self._replay):
                v = self._replay[self._pos] % n
            else:
                v = 0
                self.overrun += 1
        self._pos += 1
        self.record.append(v)
        self.tags.append((tag, n))
        return v

    def chance(self, num, den, tag=""):
        """True with probability num/den; recorded value 0 means False."""
        if num <= 0:
            return False
        v = self.draw(den, tag)
        return v >= den - num

    def pick(self, seq, tag=""):
        return seq[self.draw(len(seq), tag)]

    def between(self, lo, hi, tag=""):
        """Integer in [lo, hi] inclusive; 0 -> lo."""
        return lo + self.draw(hi - lo + 1, tag)

    def perm(self, items, tag=""):
        """A permutation of items; all-zero draws give the input order."""
        pool = list(items)
        out = []
        while pool:
            j = self.draw(len(pool), tag) if len(pool) > 1 else 0
            out.append(pool.pop(j))
        return out

    def weighted(self, weights, tag=""):
        """Index drawn with integer weights; index 0 should be the simplest.
        Recorded as a single draw over sum(weights), ordered so that value 0
        falls in index 0."""
        total = sum(weights)
        v = self.draw(total, tag)
        for i, w in enumerate(weights):
            if v < w:
                return i
            v -= w
        return len(weights) - 1

    def rendering(self, limit=400):
        out = []
        for (tag, n), v in list(zip(self.tags, self.record))[:limit]:
            out.append(f"{tag}:{v}/{n}")
        return out


def shrink(values, still_fails, max_runs=600, deadline=None):
    """Minimise a choice list.

    still_fails(list) -> bool must be deterministic.  Returns the smallest
    list found (shortlex-ish: shorter first, then smaller values).
    Strategy (in the style of Hypothesis' choice-sequence shrinker):
    truncate tail, delete blocks (8,4,2,1), zero blocks, zero single entries,
    halve / decrement single entries.  Bounded by max_runs executions and an
    optional wall clock deadline (a callable returning True when out of
    time).
    """
    best = list(values)
    runs = [0]

    def out_of_budget():
        return runs[0] >= max_runs or (deadline is not None and deadline())

    def attempt(cand):
        if out_of_budget():
            return False
        if cand == best:
            return False
        runs[0] += 1
        return bool(still_fails(cand))

    # strip trailing zeros first (free: replay pads with zeros)
    def strip(lst):
        lst = list(lst)
        while lst and lst[-1] == 0:
            lst.pop()
        return lst

    stripped = strip(best)
    if stripped != best and attempt(stripped):
        best = stripped

    improved = True
    while improved and not out_of_budget():
        improved = False
        # 1. truncate tail by halves
        n = len(best)
        cut = n // 2
        while cut >= 1 and not out_of_budget():
            cand = strip(best[: len(best) - cut])
            if len(cand) < len(best) and attempt(cand):
                best = cand
                improved = True
            else:
                cut //= 2
        # 2. delete blocks
        for size in (8, 4, 2, 1):
            i = len(best) - size
            while i >= 0 and not out_of_budget():
                cand = strip(best[:i] + best[i + size:])
                if attempt(cand):
                    best = cand
                    improved = True
                i -= size if i >= size else 1
                if i > len(best) - size:
                    i = len(best) - size
        # 3. zero blocks / single entries
        for size in (8, 4, 2, 1):
            i = 0
            while i < len(best) and not out_of_budget():
                if any(best[i:i + size]):
                    cand = strip(best[:i] + [0] * len(best[i:i + size])
                                 + best[i + size:])
                    if attempt(cand):
                        best = cand
                        improved = True
                i += size
        # 4. lower single entries
        i = 0
        while i < len(best) and not out_of_budget():
            v = best[i]
            for nv in (v // 2, v - 1):
                if 0 <= nv < v:
                    cand = strip(best[:i] + [nv] + best[i + 1:])
                    if attempt(cand):
                        best = cand
                        improved = True
                        break
            i += 1
    return best, runs[0]
