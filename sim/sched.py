"""Deterministic scheduler: baton-passing real threads, virtual clock,
discrete events, simulated Lock / Queue / Thread.

Only the holder of the baton runs.  At every intercepted operation the running
thread parks and the scheduler (the thread that called Sim.run) draws the next
actor from `Choices`.  When nothing is runnable the clock jumps to the next
event (timeouts cost microseconds).  Nothing here reads a real clock.

Value 0 of a scheduling draw = keep running the current thread (fewest
context switches), so shrinking moves towards a sequential execution.
"""

import heapq
import queue as _queue
import sys
import threading

READY, BLOCKED, DONE, NEW = "ready", "blocked", "done", "new"

CURRENT = [None]  # the Sim of the run in progress (runs are sequential)


def cur():
    return CURRENT[0]


class Abort(BaseException):
    """Raised inside parked threads to unwind them at the end of a run."""


class Sim:
    def __init__(self, ch, step_cap=6000, time_cap_us=300_000_000,
                 horizon_us=0):
        self.ch = ch
        self.now = 0
        self.seq = 0
        self.steps = 0
        self.step_cap = step_cap
        self.time_cap_us = time_cap_us
        self.horizon_us = horizon_us
        self.threads = []
        self.current = None
        self.events = []  # heap of (time, n, fn, label)
        self._evn = 0
        self.history = []
        self.sig = []  # (actor, op) at each scheduling decision
        self.aborting = False
        self.verdict = None  # quiescent | step_cap | time_cap
        self._main = threading.Lock()
        self._main.acquire()
        self.switches = 0
        self.harness_exc = None
        self.weighted = False  # set by the harness (swarm parameter)
        self.line_files = None
        self.line_budget = 0
        CURRENT[0] = self

    # ------------------------------------------------------------ history
    def log(self, actor, event, data=None):
        self.seq += 1
        self.history.append((self.seq, self.now, actor, event, data))

    # ------------------------------------------------------------- events
    def after(self, delay_us, fn, label=""):
        self._evn += 1
        heapq.heappush(self.events,
                       (self.now + max(0, int(delay_us)), self._evn, fn,
                        label))

    def at(self, time_us, fn, label=""):
        self._evn += 1
        heapq.heappush(self.events,
                       (max(self.now, int(time_us)), self._evn, fn, label))

    # ------------------------------------------------------------ threads
    def me(self):
        return self.current

    def name(self):
        t = self.current
        return t.name if t is not None else "sim"

    def spawn(self, thread):
        thread.weight = self.ch.pick([1, 1, 4, 16], "prio") \
            if self.weighted else 1
        thread.state = READY
        thread.ready_since = self.now
        self.threads.append(thread)
        real = threading.Thread(target=self._bootstrap, args=(thread,),
                                daemon=True)
        thread._real = real
        real.start()

    # ----------------------------------------------- line level pre-emption
    def enable_line_preemption(self, files, num=1, den=8, budget=40):
        """Swarm option: inside the given source files every executed line is
        a possible pre-emption point (seeded coin, capped count), so that
        races on state that is not reached through an intercepted primitive
        are schedulable too."""
        self.line_files = set(files)
        self.line_num, self.line_den = num, den
        self.line_budget = budget

    def _trace_call(self, frame, event, arg):
        if event == "call" and frame.f_code.co_filename in self.line_files:
            return self._trace_line
        return None

    def _trace_line(self, frame, event, arg):
        if event == "line" and self.line_budget > 0 and not self.aborting \
                and self.current is not None:
            if self.ch.chance(self.line_num, self.line_den, "line"):
                self.line_budget -= 1
                self.yield_("line:%d" % frame.f_lineno)
        return self._trace_line

    def _bootstrap(self, t):
        t._baton.acquire()
        if self.line_files:
            sys.settrace(self._trace_call)
        try:
            if not self.aborting:
                t._run()
        except Abort:
            pass
        except BaseException as e:  # behaviour of the code under test
            t.exc = e
            if not self.aborting:
                self.log(t.name, "thread_died", f"{type(e).__name__}: {e}")
        finally:
            t.state = DONE
            if self.aborting:
                self._main.release()
            else:
                try:
                    self._dispatch(t)
                except BaseException:  # harness bug: never hang the run
                    self.verdict = "harness_error"
                    self.harness_exc = __import__("traceback").format_exc()
                    self._main.release()

    def _switch(self):
        """The baton holder decides who runs next (the scheduler runs in
        whichever thread yields; a hand-off happens only when another thread
        is chosen)."""
        self._dispatch(self.current)

    def yield_(self, op=""):
        """Plain pre-emption point."""
        t = self.current
        if t is None or self.aborting:
            return
        t.state = READY
        t.ready_since = self.now
        t.op = op
        self._switch()

    def block(self, pred, timeout_us=None, op=""):
        """Park until pred() holds (-> True) or the timeout elapses
        (-> False)."""
        t = self.current
        if t is None:
            raise RuntimeError("blocking call outside a simulated thread")
        if self.aborting:
            raise Abort()
        t.state = BLOCKED
        t.pred = pred
        t.op = op
        t.timed_out = False
        t.wait_token += 1
        if timeout_us is not None:
            token = t.wait_token

            def fire(t=t, token=token):
                if t.state == BLOCKED and t.wait_token == token:
                    t.timed_out = True
                    t.state = READY
                    t.ready_since = self.now

            self.after(timeout_us, fire, "timeout:" + t.name)
        self._switch()
        return not t.timed_out

    def sleep(self, us):
        self.block(lambda: False, us, "sleep")

    # ---------------------------------------------------------- scheduling
    def _runnable(self, me):
        out = []
        for t in self.threads:
            if t.state == READY:
                out.append(t)
            elif t.state == BLOCKED and t.pred():
                t.state = READY
                t.ready_since = self.now
                out.append(t)
        if me is not None and me in out and out[0] is not me:
            out.remove(me)
            out.insert(0, me)
        return out

    def _pick(self, me):
        """Draw the next thread to run, firing events on the way.  Returns a
        SimThread, or None when the run is over (verdict set)."""
        while True:
            if self.steps >= self.step_cap:
                self.verdict = "step_cap"
                return None
            if self.now > self.time_cap_us:
                self.verdict = "time_cap"
                return None
            runnable = self._runnable(me)
            ev_ok = False
            if self.events:
                et = self.events[0][0]
                if not runnable:
                    ev_ok = True
                else:
                    oldest = min(t.ready_since for t in runnable)
                    ev_ok = et <= self.now or \
                        et - oldest <= self.horizon_us
            if not runnable and not ev_ok:
                self.verdict = "quiescent"
                return None
            nopt = len(runnable) + (1 if ev_ok else 0)
            if nopt <= 1:
                k = 0
            elif self.weighted:
                # priority based schedules: some threads are starved for long
                # stretches, which uniform choice practically never does
                ws = [t.weight for t in runnable] + ([4] if ev_ok else [])
                k = self.ch.weighted(ws, "sched")
            else:
                k = self.ch.draw(nopt, "sched")
            self.steps += 1
            if k < len(runnable):
                t = runnable[k]
                self.sig.append((t.name, t.op))
                return t
            et, _, fn, label = heapq.heappop(self.events)
            if et > self.now:
                self.now = et
            self.sig.append(("ev", label))
            self.current = None
            fn()

    def _dispatch(self, me):
        target = self._pick(me if me is not None and me.state != DONE
                            else None)
        if target is me and me is not None:
            self.current = me
            return
        if target is None:
            self.current = None
            self._main.release()
        else:
            self.current = target
            self.switches += 1
            target._baton.release()
        if me is not None and me.state != DONE:
            me._baton.acquire()
            if self.aborting:
                raise Abort()

    def run(self):
        CURRENT[0] = self
        try:
            first = self._pick(None)
            if first is not None:
                self.current = first
                self.switches += 1
                first._baton.release()
                self._main.acquire()
        finally:
            self._unwind()
            CURRENT[0] = None
        if self.verdict == "harness_error":
            raise RuntimeError("scheduler failure:\n" + self.harness_exc)
        return self.verdict

    def _unwind(self):
        self.aborting = True
        for t in self.threads:
            if t.state != DONE and t._real is not None:
                self.current = t
                t._baton.release()
                self._main.acquire()
        for t in self.threads:
            if t._real is not None:
                t._real.join(5)
        self.current = None

    def pending(self):
        return [t for t in self.threads if t.state != DONE]


class SimThread:
    """threading.Thread look-alike scheduled by the simulator."""

    _count = [0]

    def __init__(self, group=None, target=None, name=None, args=(),
                 kwargs=None, daemon=None):
        self.sim = cur()
        self._target = target
        self._args = args
        self._kwargs = kwargs or {}
        n = len(self.sim.threads) + 1
        self.name = name or f"T{n}"
        self.daemon = daemon
        self.state = NEW
        self.pred = None
        self.op = "start"
        self.timed_out = False
        self.wait_token = 0
        self.ready_since = 0
        self.exc = None
        self._baton = threading.Lock()
        self._baton.acquire()
        self._real = None

    def _run(self):
        self.run()

    def run(self):
        if self._target is not None:
            self._target(*self._args, **self._kwargs)

    def start(self):
        if self.state != NEW:
            raise RuntimeError("threads can only be started once")
        self.sim.spawn(self)
        self.sim.yield_("thread.start")

    def join(self, timeout=None):
        sim = self.sim
        sim.yield_("thread.join")
        if self.state != DONE:
            sim.block(lambda: self.state == DONE,
                      None if timeout is None else int(timeout * 1e6),
                      "thread.join")

    def is_alive(self):
        return self.state not in (NEW, DONE)


class SimLock:
    """threading.Lock look-alike."""

    def __init__(self):
        self.sim = cur()
        self.owner = None
        self.locked_ = False

    def acquire(self, blocking=True, timeout=-1):
        sim = self.sim
        sim.yield_("lock.acquire")
        expired = False
        while self.locked_:
            if not blocking or expired:
                return False
            expired = not sim.block(lambda: not self.locked_,
                                    None if timeout is None or timeout < 0
                                    else int(timeout * 1e6), "lock.wait")
        self.locked_ = True
        self.owner = sim.me()
        return True

    def release(self):
        if not self.locked_:
            raise RuntimeError("release unlocked lock")
        self.locked_ = False
        self.owner = None
        self.sim.yield_("lock.release")

    def locked(self):
        return self.locked_

    def __enter__(self):
        self.acquire()
        return self

    def __exit__(self, *a):
        self.release()
        return False


class SimQueue:
    """queue.Queue look-alike raising the real queue.Empty / queue.Full."""

    def __init__(self, maxsize=0):
        self.sim = cur()
        self.maxsize = maxsize
        self.items = []
        self.name = "q"

    def _full(self):
        return 0 < self.maxsize <= len(self.items)

    # racy look-ahead calls are scheduling points too
    def qsize(self):
        self.sim.yield_("queue.qsize")
        return len(self.items)

    def empty(self):
        self.sim.yield_("queue.empty")
        return not self.items

    def full(self):
        self.sim.yield_("queue.full")
        return self._full()

    def put(self, item, block=True, timeout=None):
        sim = self.sim
        sim.yield_("queue.put")
        expired = False
        while self._full():
            if not block or expired:
                raise _queue.Full
            if timeout is not None and timeout < 0:
                raise ValueError("'timeout' must be a non-negative number")
            expired = not sim.block(
                lambda: not self._full(),
                None if timeout is None else int(timeout * 1e6),
                "queue.put.wait")
        self.items.append(item)

    def get(self, block=True, timeout=None):
        sim = self.sim
        sim.yield_("queue.get")
        expired = False
        while not self.items:
            if not block or expired:
                raise _queue.Empty
            if timeout is not None and timeout < 0:
                raise ValueError("'timeout' must be a non-negative number")
            expired = not sim.block(
                lambda: bool(self.items),
                None if timeout is None else int(timeout * 1e6),
                "queue.get.wait")
        return self.items.pop(0)

    def put_nowait(self, item):
        return self.put(item, block=False)

    def get_nowait(self):
        return self.get(block=False)

    def task_done(self):
        pass


class SimRLock:
    """threading.RLock look-alike."""

    def __init__(self):
        self.sim = cur()
        self.owner = None
        self.count = 0

    def acquire(self, blocking=True, timeout=-1):
        sim = self.sim
        me = sim.me()
        sim.yield_("rlock.acquire")
        if self.owner is me and me is not None:
            self.count += 1
            return True
        expired = False
        while self.owner is not None:
            if not blocking or expired:
                return False
            expired = not sim.block(lambda: self.owner is None,
                                    None if timeout is None or timeout < 0
                                    else int(timeout * 1e6), "rlock.wait")
        self.owner = me
        self.count = 1
        return True

    def release(self):
        if self.owner is None:
            raise RuntimeError("cannot release un-acquired lock")
        self.count -= 1
        if self.count == 0:
            self.owner = None
            self.sim.yield_("rlock.release")

    def __enter__(self):
        self.acquire()
        return self

    def __exit__(self, *a):
        self.release()
        return False


class SimEvent:
    """threading.Event look-alike."""

    def __init__(self):
        self.sim = cur()
        self.flag = False

    def is_set(self):
        self.sim.yield_("event.is_set")
        return self.flag

    isSet = is_set

    def set(self):
        self.flag = True
        self.sim.yield_("event.set")

    def clear(self):
        self.sim.yield_("event.clear")
        self.flag = False

    def wait(self, timeout=None):
        sim = self.sim
        sim.yield_("event.wait")
        if not self.flag:
            sim.block(lambda: self.flag,
                      None if timeout is None else int(timeout * 1e6),
                      "event.wait.block")
        return self.flag


class SimCondition:
    """threading.Condition look-alike (over a SimLock / SimRLock)."""

    def __init__(self, lock=None):
        self.sim = cur()
        self.lock = lock if lock is not None else SimRLock()
        self.waiters = []
        self.acquire = self.lock.acquire
        self.release = self.lock.release

    def __enter__(self):
        return self.lock.__enter__()

    def __exit__(self, *a):
        return self.lock.__exit__(*a)

    def wait(self, timeout=None):
        sim = self.sim
        token = [False]
        self.waiters.append(token)
        # release the lock completely while waiting
        saved = getattr(self.lock, "count", 1)
        if isinstance(self.lock, SimRLock):
            self.lock.count = 1
        self.lock.release()
        ok = sim.block(lambda: token[0],
                       None if timeout is None else int(timeout * 1e6),
                       "cond.wait")
        if token in self.waiters:
            self.waiters.remove(token)
        self.lock.acquire()
        if isinstance(self.lock, SimRLock):
            self.lock.count = saved
        return ok

    def wait_for(self, predicate, timeout=None):
        end = None if timeout is None else self.sim.now + int(timeout * 1e6)
        result = predicate()
        while not result:
            remaining = None
            if end is not None:
                remaining = (end - self.sim.now) / 1e6
                if remaining <= 0:
                    break
            self.wait(remaining)
            result = predicate()
        return result

    def notify(self, n=1):
        for token in self.waiters[:n]:
            token[0] = True
        del self.waiters[:n]
        self.sim.yield_("cond.notify")

    def notify_all(self):
        self.notify(len(self.waiters))

    notifyAll = notify_all


class SimSemaphore:
    """threading.Semaphore look-alike."""

    def __init__(self, value=1):
        self.sim = cur()
        self.value = value

    def acquire(self, blocking=True, timeout=None):
        sim = self.sim
        sim.yield_("sem.acquire")
        expired = False
        while self.value <= 0:
            if not blocking or expired:
                return False
            expired = not sim.block(lambda: self.value > 0,
                                    None if timeout is None
                                    else int(timeout * 1e6), "sem.wait")
        self.value -= 1
        return True

    def release(self, n=1):
        self.value += n
        self.sim.yield_("sem.release")

    def __enter__(self):
        self.acquire()
        return self

    def __exit__(self, *a):
        self.release()
        return False


class SimTimer(SimThread):
    """threading.Timer look-alike: runs `function` after `interval` seconds
    of simulated time unless cancelled."""

    def __init__(self, interval, function, args=None, kwargs=None):
        super().__init__()
        self.interval = interval
        self.function = function
        self.t_args = args or ()
        self.t_kwargs = kwargs or {}
        self.finished = SimEvent()

    def cancel(self):
        self.finished.flag = True

    def run(self):
        self.finished.wait(self.interval)
        if not self.finished.flag or False:
            self.function(*self.t_args, **self.t_kwargs)
        self.finished.flag = True


class SimFuture:
    def __init__(self, sim):
        self.sim = sim
        self.done_ = False
        self.value = None
        self.exc = None
        self.callbacks = []

    def done(self):
        return self.done_

    def result(self, timeout=None):
        if not self.done_:
            self.sim.block(lambda: self.done_,
                           None if timeout is None else int(timeout * 1e6),
                           "future.result")
        if not self.done_:
            raise TimeoutError()
        if self.exc is not None:
            raise self.exc
        return self.value

    def add_done_callback(self, fn):
        if self.done_:
            fn(self)
        else:
            self.callbacks.append(fn)


class SimExecutor:
    """concurrent.futures.ThreadPoolExecutor look-alike: every task runs in
    its own simulated thread (so tasks can overtake each other)."""

    def __init__(self, max_workers=None, thread_name_prefix="pool", **kw):
        self.sim = cur()
        self.prefix = thread_name_prefix or "pool"
        self.n = 0

    def submit(self, fn, *args, **kwargs):
        fut = SimFuture(self.sim)

        def body():
            try:
                fut.value = fn(*args, **kwargs)
            except Abort:
                raise
            except BaseException as e:  # behaviour of the code under test
                fut.exc = e
            fut.done_ = True
            for cb in fut.callbacks:
                cb(fut)

        self.n += 1
        t = SimThread(target=body, name=f"{self.prefix}{self.n}")
        t.start()
        return fut

    def map(self, fn, *iterables):
        futs = [self.submit(fn, *a) for a in zip(*iterables)]
        return [f.result() for f in futs]

    def shutdown(self, wait=True, **kw):
        pass

    def __enter__(self):
        return self

    def __exit__(self, *a):
        return False
