#!/venv/bin/python
"""C30 - compilation is deterministic: same sources + same options => byte
identical object files and linked images, whatever the hash seed, the
process, or what was compiled earlier in the process.

Deterministic simulation of the *process*: one simulated run = one fresh
interpreter (checks/c30_worker.py) whose hidden inputs are all drawn from the
seed: PYTHONHASHSEED, a seeded (address independent) identity hash for ppci's
objects or the native one with ASLR switched off plus seeded heap noise, a
simulated wall clock, and the in-process history (the sequence of other
compilations executed before and between).  Oracle: for every subject all
digests of all outputs agree across all runs.  See DESIGN.md, section C30.
"""

import argparse
import hashlib
import json
import os
import shutil
import subprocess
import sys
from concurrent.futures import ThreadPoolExecutor

sys.path.insert(0, os.path.dirname(os.path.dirname(os.path.abspath(__file__))))
from sim import report  # noqa: E402
from sim.choices import Choices, derive_seed, shrink  # noqa: E402
from sim.cgen import (gen_unit, gen_project, gen_c3_unit, gen_bf,  # noqa: E402
                      gen_pascal, gen_python)

PROP = "C30"
HERE = os.path.dirname(os.path.abspath(__file__))
WORKER = os.path.join(HERE, "c30_worker.py")

RICH = ["x86_64", "arm", "riscv", "microblaze"]
MID = ["or1k", "mips"]
WEAK = ["xtensa", "msp430"]  # avr/stm8/mcs6500 reject C ints, m68k hangs
OPTS = [0, 1, 2, "s"]
# march strings with options (the option part ends up in the object's arch id
# and selects other instruction sets / calling conventions)
VARIANTS = {
    "x86_64": ["x86_64", "x86_64", "x86_64:wincc", "x86_64:sse2:wincc"],
    "riscv": ["riscv", "riscv", "riscv:rvc", "riscv:rvc:rvf"],
    "arm": ["arm", "arm", "arm:neon:vfpv2", "arm:thumb"],
}


def base_of(march):
    return str(march).split(":")[0]


class HarnessError(Exception):
    pass


_SETARCH = [None]


def setarch_prefix():
    """`setarch -R` switches ASLR off, which makes the native identity hash
    (= address) a deterministic function of the allocation history."""
    if _SETARCH[0] is None:
        exe = shutil.which("setarch")
        ok = False
        if exe:
            p = subprocess.run([exe, "x86_64", "-R", "true"],
                               capture_output=True)
            ok = p.returncode == 0
        _SETARCH[0] = [exe, "x86_64", "-R"] if ok else []
    return _SETARCH[0]


def run_worker(cfg, ops):
    """One simulated process life time -> list of per-op results."""
    env = dict(os.environ)
    env["PYTHONHASHSEED"] = str(cfg["hashseed"])
    env.pop("PYTHONPATH", None)
    job = {"ops": ops, "idhash": cfg.get("idhash"),
           "noise": cfg.get("noise", 0), "clock": cfg.get("clock"),
           "repo": report.REPO, "neutralise": cfg.get("neutralise", [])}
    cmd = [sys.executable, "-B", WORKER]
    if setarch_prefix():
        # ASLR off in every mode: objects with __slots__ (no __dict__ to
        # remember a seeded hash in) and builtin objects keep an address
        # based hash even under the seeded identity hash
        cmd = setarch_prefix() + cmd
    try:
        p = subprocess.run(cmd, input=json.dumps(job), capture_output=True,
                           text=True, env=env, timeout=3600)
    except subprocess.TimeoutExpired:
        raise HarnessError("worker process exceeded its wall clock limit")
    line = [l for l in p.stdout.splitlines() if l.startswith("RESULT ")]
    if p.returncode != 0 or not line:
        raise HarnessError(f"worker failed rc={p.returncode}: "
                           + (p.stdout[-500:] + p.stderr[-1500:]))
    res = json.loads(line[-1][7:])
    if "harness_error" in res:
        raise HarnessError(res["harness_error"])
    return res["results"]

# ---------------------------------------------------------------- workload


def gen_subject(ch, sid, tier, chosen):
    profile = ["rich", "basic", "tiny", "micro"][tier]
    # names are shared between the modules of a batch, sometimes with the
    # roles swapped (one module's function is another module's variable)
    fnp, glp = ch.pick([("f", "g"), ("f", "g"), ("g", "f"), ("lib", "entry")],
                       "prefixes")
    src = gen_unit(ch, profile, fn_prefix=fnp, glob_prefix=glp,
                   pointers=bool(ch.chance(1, 2, "pointers")))
    if ch.chance(1, 10, "cerror"):
        # a translation unit with an error somewhere (diagnosed, no object):
        # an earlier *failed* compilation is history for the later ones
        lines = src.split("\n")
        tops = [k for k, l in enumerate(lines) if l.startswith(("int ",
                                                                 "static "))]
        bad = ch.pick(["int broken(int a) { return undefined_name + a; }",
                       "int broken(int a) { return a +; }",
                       "int broken(int a) { int a; return a; }",
                       "struct nosuch broken_var = 3;"], "cerrkind")
        at = ch.pick(tops, "cerrpos") if tops else len(lines)
        lines.insert(at, bad)
        src = "\n".join(lines)
    ops = []
    for t in chosen:
        if len(chosen) > 1 and ch.chance(1, 4, "skiptarget"):
            continue
        opt = ch.pick(OPTS, "opt")
        outs = ["obj"]
        if ch.chance(1, 3, "elf") or (base_of(t) == "x86_64" and
                                      ch.chance(1, 2, "elf64")):
            outs.append("elf")
        if ch.chance(1, 3, "img"):
            outs.append("img")
        if ch.chance(1, 6, "exe"):
            outs.append("exe")
        if ch.chance(1, 6, "hex"):
            outs.append("hex")
        if ch.chance(1, 4, "rtimg"):
            outs.append("rtimg")
        if ch.chance(1, 6, "plink"):
            outs.append("plink")
        if ch.chance(1, 6, "irobj"):
            outs.append(ch.pick(["irobj", "irjson"], "irkind"))
        if ch.chance(1, 10, "ar"):
            outs.append("ar")
        lay = ch.weighted([3, 2, 1], "layout")
        extra = None
        if lay == 2 and base_of(t) in ("x86_64", "arm", "riscv", "xtensa"):
            # a layout that places only `code`: everything else, including a
            # few hand written sections, stays outside every memory
            names = ch.perm(["vectors", "bootinfo", "extra1", "zz_last"],
                            "loosenames")[: 2 + ch.draw(3, "nloose")]
            extra = "".join(f"section {nm}\ndd {ch.draw(1 << 30, 'loosew')}\n"
                            for nm in names)
            for k in ("exe", "img"):
                if k not in outs and ch.chance(1, 2, "looseout"):
                    outs.append(k)
        copt = None
        if ch.chance(1, 5, "copt"):
            copt = {"freestanding": bool(ch.chance(1, 2, "cofree")),
                    "std": "c99", "trigraphs": bool(ch.chance(1, 3, "cotri")),
                    "defines": [("CFGV", str(ch.draw(100, "cfgv")))]
                    if ch.chance(1, 2, "codef") else []}
        xs = None
        if "img" in outs and ch.chance(1, 3, "extrasyms"):
            xs = {nm: ch.draw(1 << 16, "xsval")
                  for nm in ch.perm(["zsym", "asym", "msym", "bsym"],
                                    "xsnames")[: 2 + ch.draw(3, "nxs")]}
        ops.append({"id": f"s{sid}-{t}-O{opt}", "src": src, "march": t,
                    "opt": opt, "debug": bool(ch.chance(1, 3, "debug")),
                    "layout": lay, "extra_asm": extra, "copt": copt,
                    "extra_symbols": xs,
                    "entry": f"{fnp}0", "outputs": outs})
    return ops


ARM_REGS = ["r0", "r1", "r2", "r3", "r4", "r5", "r6"]


def gen_asm_arm(ch):
    """Small ARM assembly unit: labels, data words, arithmetic and the
    `ldr rX, =label` pseudo instruction (assembler generated literal pool)."""
    nlab = 1 + ch.draw(3, "nlab")
    labels = [f"lab{i}" for i in range(nlab)]
    lines = ["section code"]
    for lab in labels:
        lines.append(f"{lab}:")
        for _ in range(1 + ch.draw(4, "nins")):
            k = ch.weighted([3, 2, 2, 1], "asmkind")
            r = ch.pick(ARM_REGS, "reg")
            if k == 0:
                lines.append(f"  ldr {r}, ={ch.pick(labels, 'lit')}")
            elif k == 1:
                lines.append(f"  mov {r}, {ch.draw(200, 'imm')}")
            elif k == 2:
                lines.append(f"  add {r}, {ch.pick(ARM_REGS, 'reg2')}, "
                             f"{ch.pick(ARM_REGS, 'reg3')}")
            else:
                lines.append(f"  dd {ch.draw(1 << 30, 'word')}")
    if ch.chance(1, 3, "asmerror"):
        # a source with an error (diagnosed, no object): an *earlier failed*
        # compilation is history too
        lines.insert(2 + ch.draw(max(1, len(lines) - 2), "errpos"),
                     "  " + ch.pick(["bogus r1", "mov r77, 1", "ldr r0, ="],
                                    "errline"))
    return "\n".join(lines) + "\n"


GENERIC_ASM_TARGETS = ["arm", "riscv", "or1k", "mips", "xtensa", "msp430",
                       "avr"]


def gen_asm_generic(ch):
    """Labels and data only (accepted by most assemblers); the label names
    collide on purpose with function / variable names of the C subjects."""
    lines = []
    for sec in ("code", "data"):
        lines.append(f"section {sec}")
        for _ in range(1 + ch.draw(3, "nglab")):
            name = ch.pick(["f0", "f1", "g0", "g1", "lib0", "entry0", "main",
                            "p0", "t0"], "glabel") + ch.pick(["", "", "_x"],
                                                             "gsuffix")
            if name + ":" in lines:
                continue
            if ch.chance(1, 3, "gglobal"):
                lines.append(f"global {name}")
            lines.append(f"{name}:")
            if ch.chance(1, 6, "gasmerror"):
                err = ch.pick(["repeat 3", "repeat 2", "bogus_mnemonic 1, 2",
                               "dd", "endrepeat"], "gerrline")
                lines.append(err)
                if err.startswith("repeat"):
                    # the source ends (or fails) inside the repeat block
                    lines.append(f"dd {ch.draw(1 << 30, 'gerrword')}")
                    if ch.chance(1, 2, "gerrinside"):
                        lines.append("bogus_mnemonic 3")
            if ch.chance(1, 4, "grepeat"):
                # assembler macro state (recording / repeat count)
                lines.append(f"repeat {1 + ch.draw(4, 'grepn')}")
                lines.append(f"dd {ch.draw(1 << 30, 'grepword')}")
                lines.append(f"db {ch.draw(256, 'grepbyte')}")
                lines.append("endrepeat")
            for _ in range(1 + ch.draw(2, "ngdata")):
                if ch.chance(1, 2, "gdd"):
                    lines.append(f"dd {ch.draw(1 << 30, 'gword')}")
                else:
                    lines.append(f"db {ch.draw(256, 'gbyte')}")
    return "\n".join(lines) + "\n"


with open(os.path.join(os.path.dirname(HERE), "sim", "asm_pool.json")) as _f:
    ASM_POOL = json.load(_f)  # per target: instruction lines that assemble


def gen_asm_instr(ch, target):
    """Assembly made of real instructions of the target (taken from a pool of
    lines the target's assembler accepts), a few labels and data."""
    pool = ASM_POOL[target]
    lines = ["section code", "lab0:"]
    for _ in range(3 + ch.draw(12, "ninstr")):
        lines.append(ch.pick(pool, "instr"))
        if ch.chance(1, 8, "instrdata"):
            lines.append(f"dd {ch.draw(1 << 30, 'instrword')}")
    lines.insert(2 + ch.draw(len(lines) - 1, "lab1pos"), "lab1:")
    return "\n".join(lines) + "\n"


def gen_asm_ops(ch, b, chosen):
    ops = []
    icands = [t for t in chosen if base_of(t) in ASM_POOL
              and ASM_POOL[base_of(t)] and t != "arm:thumb"]
    for n in range(ch.weighted([2, 3, 2], "niasm") if icands else 0):
        t = ch.pick(icands, "iasmtarget")
        ops.append({"id": f"iasm{b}.{n}-{t}", "lang": "asm",
                    "src": gen_asm_instr(ch, base_of(t)), "march": t,
                    "opt": 0, "outputs": ["obj"]})
    for n in range(ch.weighted([3, 2, 1], "nasm")):
        ops.append({"id": f"asm{b}.{n}-arm", "lang": "asm",
                    "src": gen_asm_arm(ch), "march": "arm", "opt": 0,
                    "outputs": ["obj"]})
    cands = [t for t in chosen if base_of(t) in GENERIC_ASM_TARGETS
             and t != "arm:thumb"]
    for n in range(ch.weighted([2, 2, 1], "ngasm") if cands else 0):
        t = ch.pick(cands, "gasmtarget")
        ops.append({"id": f"gasm{b}.{n}-{t}", "lang": "asm",
                    "src": gen_asm_generic(ch), "march": t, "opt": 0,
                    "outputs": ["obj"]})
    return ops


def gen_c3_ops(ch, b, chosen):
    ops = []
    cands = [t for t in chosen if base_of(t) in RICH + MID]
    for n in range(ch.weighted([2, 2, 1], "nc3") if cands else 0):
        t = ch.pick(cands, "c3target")
        opt = ch.pick(OPTS, "c3opt")
        outs = ["obj"] + (["img", "hex"] if ch.chance(1, 3, "c3img") else [])
        srcs = []
        exported = []
        for k in range(ch.weighted([0, 3, 2, 1], "c3nfiles")):
            imports = [e for e in exported if ch.chance(1, 2, "c3import")]
            src, exp = gen_c3_unit(ch, f"{b}_{n}_{k}", imports)
            srcs.append(src)
            exported.append(exp)
        if ch.chance(1, 2, "c3fileorder"):
            srcs.reverse()  # importing module first on the command line
        ops.append({"id": f"c3_{b}.{n}-{t}-O{opt}", "lang": "c3",
                    "src": srcs[0], "more_srcs": srcs[1:], "march": t,
                    "opt": opt, "debug": bool(ch.chance(1, 3, "c3debug")),
                    "outputs": outs})
    return ops


def gen_other_lang_ops(ch, b, chosen):
    """Brainfuck, Pascal and Python front-ends."""
    ops = []
    cands = [t for t in chosen if base_of(t) in RICH]
    if not cands:
        return ops
    for n in range(ch.weighted([3, 2, 1], "nother")):
        t = ch.pick(cands, "othertarget")
        lang = ch.pick(["bf", "pascal", "pascal", "python"], "otherlang")
        if lang == "python" and base_of(t) != "x86_64":
            lang = "bf"
        src = {"bf": gen_bf, "python": gen_python}.get(
            lang, lambda c: gen_pascal(c, f"{b}_{n}"))(ch)
        opt = ch.pick(OPTS, "otheropt")
        outs = ["obj"] + (["rtimg"] if ch.chance(1, 3, "otherrt") else [])
        ops.append({"id": f"{lang}{b}.{n}-{t}-O{opt}", "lang": lang,
                    "src": src, "march": t, "opt": opt, "outputs": outs})
    return ops


def gen_file_ops(ch, b, chosen):
    """C translation units in real files that #include a header standing next
    to them; different subjects use the same header *name* with different
    contents (in different directories)."""
    ops = []
    cands = [t for t in chosen if base_of(t) in RICH]
    for n in range(ch.weighted([2, 2, 1], "nfileops") if cands else 0):
        t = ch.pick(cands, "filetarget")
        hdr = (f"#define HV {ch.draw(1000, 'hv')}\n"
               f"#define HADD(x) ((x) + {ch.draw(50, 'hadd')})\n"
               f"int hg{ch.draw(3, 'hgname')};\n")
        body = gen_unit(ch, "basic", fn_prefix="u", glob_prefix="w")
        main = '#include "cfg.h"\n' + body + \
            "int useh(int a) { return HADD(a) + HV; }\n"
        opt = ch.pick(OPTS, "fileopt")
        ops.append({"id": f"file{b}.{n}-{t}-O{opt}", "lang": "c",
                    "files": {"cfg.h": hdr, "main.c": main}, "main": "main.c",
                    "src": main, "march": t, "opt": opt,
                    "debug": bool(ch.chance(1, 3, "filedebug")),
                    "outputs": ["obj"]})
    return ops


def gen_recipe_ops(ch, b, chosen):
    """Whole builds through ppci.api.construct: a build.xml with compile
    (several sources, two include directories carrying a same-named header),
    assemble, link with a layout *file* and objcopy tasks."""
    ops = []
    cands = [t for t in chosen if base_of(t) in ("x86_64", "riscv", "arm")
             and ":" not in t]
    for n in range(ch.weighted([3, 2, 1], "nrecipe") if cands else 0):
        t = ch.pick(cands, "recipetarget")
        nsrc = 2 + ch.draw(3, "recipensrc")
        files = {}
        names = []
        for k in range(nsrc):
            nm = ch.pick(["main", "util", "drv", "alpha", "zeta", "io"],
                         "srcname") + f"{k}.c"
            names.append(nm)
            body = gen_unit(ch, "tiny", fn_prefix=f"m{k}_",
                            glob_prefix=f"mg{k}_")
            files[nm] = "#include <common.h>\n" + body + \
                f"int cfg{k}(void) {{ return COMMON_V + {k}; }}\n"
        files["inc1/common.h"] = f"#define COMMON_V {ch.draw(100, 'cv1')}\n"
        files["inc2/common.h"] = f"#define COMMON_V {100 + ch.draw(100, 'cv2')}\n"
        files["data.asm"] = "section data\n" + "".join(
            f"rd{k}:\ndd {ch.draw(1 << 30, 'rdw')}\n" for k in range(2))
        files["layout.mmp"] = (
            f"MEMORY code LOCATION={hex(0x1000 * (1 + ch.draw(8, 'rlo')))} "
            "SIZE=0x100000 {\n  SECTION(code)\n  ALIGN(8)\n}\n"
            "MEMORY ram LOCATION=0x20000000 SIZE=0x100000 {\n"
            "  SECTION(data)\n}\n")
        opt = ch.pick([0, 1, 2], "recipeopt")
        files["build.xml"] = (
            '<project name="gen" default="all">\n'
            '<import name="ppci.build.buildtasks" />\n'
            '<target name="all" depends="prog" />\n'
            '<target name="prog">\n'
            f'<ccompile arch="{t}" optimize="{opt}" '
            f'sources="{";".join(names)}" includes="inc1;inc2" '
            'output="obj/c.oj" />\n'
            f'<assemble arch="{t}" source="data.asm" output="obj/d.oj" />\n'
            '<link output="obj/prog.oj" layout="layout.mmp" '
            'objects="obj/c.oj;obj/d.oj" />\n'
            '<objcopy objectfile="obj/prog.oj" imagename="code" '
            'format="hex" output="obj/prog.hex" />\n'
            '</target>\n</project>\n')
        ops.append({"id": f"recipe{b}.{n}-{t}-O{opt}", "lang": "recipe",
                    "src": files["build.xml"], "files": files, "march": t,
                    "opt": opt, "produced": ["obj/c.oj", "obj/d.oj",
                                             "obj/prog.oj", "obj/prog.hex"],
                    "outputs": ["obj"]})
    return ops


def gen_project_ops(ch, b, chosen):
    """Multi-module programs: archive + link with libraries."""
    ops = []
    cands = [t for t in chosen if base_of(t) in RICH]
    for n in range(ch.weighted([2, 3, 1], "nproj") if cands else 0):
        t = ch.pick(cands, "projtarget")
        main, members, entry = gen_project(ch, f"{n}")
        extra = []
        if ch.chance(1, 3, "projextra"):
            extra.append(gen_unit(ch, "basic", fn_prefix=f"x{n}_",
                                  glob_prefix=f"xg{n}_"))
        outs = ["obj"]
        if base_of(t) == "x86_64" and ch.chance(1, 2, "projexe"):
            outs.append("exe")
        ops.append({"id": f"proj{b}.{n}-{t}", "lang": "project", "src": main,
                    "members": members, "extra": extra, "march": t,
                    "layout": ch.weighted([1, 1], "projlayout"),
                    "entry": entry,
                    "opt": ch.pick(OPTS, "projopt"), "outputs": outs})
    return ops


def gen_config(ch):
    cfg = {"hashseed": ch.pick([0, 1, 2, 3, 7, 42, 1234, 65535, 4294967295],
                               "hashseed")}
    mode = ch.weighted([1, 2], "idmode")
    if mode == 0:
        cfg["idhash"] = None  # native identity hash (address), ASLR off
        cfg["noise"] = ch.draw(5000, "noise")
    else:
        cfg["idhash"] = 1 + ch.draw(1 << 30, "idhash")
        cfg["noise"] = 0
    cfg["clock"] = {"start": 1.0e9 + ch.draw(1 << 28, "clock"),
                    "step": ch.pick([0.0, 0.37, 86400.0], "step")}
    return cfg


def gen_batch(seed, b):
    """A batch: M subjects (-> ops), K worker runs each executing a seeded
    sequence over the ops (so every op is also everyone else's history),
    plus single-op canonical runs."""
    ch = Choices(seed=derive_seed(PROP, seed, b))
    m = 3 + ch.draw(3, "nsubjects")
    # all subjects of a batch share a few targets: the per-target start-up
    # cost (instruction selector tables) is paid once per process
    tier = ch.weighted([12, 4, 2, 3], "tier")
    targets = [RICH, RICH + MID, RICH + MID + WEAK,
               ["xtensa", "msp430", "or1k", "mips"]][tier]
    nt = 1 + ch.weighted([1, 3, 2], "ntargets")
    chosen = ch.perm(targets, "targets")[:nt]
    chosen = [ch.pick(VARIANTS.get(t, [t]), "variant") for t in chosen]
    ops = []
    for sid in range(m):
        ops += gen_subject(ch, f"{b}.{sid}", tier, chosen)
    ops += gen_asm_ops(ch, b, chosen)
    ops += gen_project_ops(ch, b, chosen)
    ops += gen_c3_ops(ch, b, chosen)
    ops += gen_other_lang_ops(ch, b, chosen)
    ops += gen_file_ops(ch, b, chosen)
    ops += gen_recipe_ops(ch, b, chosen)
    runs = []
    k = 4
    for r in range(k):
        cfg = gen_config(ch)
        seq = ch.perm(list(range(len(ops))), "seq")
        # repeat some ops inside the same process (same op twice)
        for _ in range(ch.draw(3, "nrepeat")):
            seq.insert(ch.draw(len(seq) + 1, "reppos"),
                       ch.draw(len(ops), "repop"))
        # drop some: different histories in different runs
        keep = [i for i in seq if not ch.chance(1, 5, "drop")] or seq[:1]
        # the order in which the outputs of one compilation are produced
        # (save the object before or after linking it, link once or twice)
        # is part of the history too
        orders = [ch.draw(24, "outorder") for _ in keep]
        runs.append({"cfg": cfg, "seq": keep, "out_orders": orders})
    # canonical: hash seed 0, native hash, no noise, no history
    canon = {"hashseed": 0, "idhash": None, "noise": 0,
             "clock": {"start": 1.0e9, "step": 0.0}}
    for _ in range(2):
        runs.append({"cfg": canon, "seq": [ch.draw(len(ops), "canonop")],
                     "out_orders": [0]})
    return {"batch": b, "ops": ops, "runs": runs}


SCENARIO_C = """
int g0 = 3;
int tab[4] = {1, 2, 3, 4};
int helper(int a) { if (a > 3) { return a - 1; } return a + tab[a & 3]; }
int entry0(int x) {
  int i; int s = 0;
  for (i = 0; i < x; i += 1) {
    if (s > 100) { s = helper(s) - g0; } else { s += helper(i); }
    switch (i & 3) { case 0: s ^= 5; break; case 2: s += 9; break;
                     default: s -= 1; break; }
  }
  return s + helper(x);
}
"""


def scenario_batch():
    """A small hand-written batch that is part of every run: delicate
    histories that the seeded batches only hit now and then (the same object
    saved before / after it is linked, linked once or several times, on the
    one target with linker relaxation; an assembly that fails inside a repeat
    block followed by one that uses repeat; a failed assembly with a pending
    literal followed by a good one)."""
    canon = {"hashseed": 0, "idhash": None, "noise": 0,
             "clock": {"start": 1.0e9, "step": 0.0}}
    other = {"hashseed": 1234, "idhash": 99, "noise": 0,
             "clock": {"start": 1.1e9, "step": 0.37}}
    ops = [
        {"id": "scn-rvc", "src": SCENARIO_C, "march": "riscv:rvc", "opt": 1,
         "debug": False, "layout": 0, "entry": "entry0",
         "outputs": ["obj", "img", "hex"]},
        {"id": "scn-rvc-O2", "src": SCENARIO_C, "march": "riscv:rvc",
         "opt": 2, "debug": True, "layout": 1, "entry": "entry0",
         "outputs": ["obj", "img", "exe"]},
        {"id": "scn-asm-fail-in-repeat", "lang": "asm", "march": "arm",
         "opt": 0, "outputs": ["obj"],
         "src": "section code\nrepeat 3\ndd 5\nbogus_mnemonic 3\n"},
        {"id": "scn-asm-repeat", "lang": "asm", "march": "arm", "opt": 0,
         "outputs": ["obj"],
         "src": "section code\nl0:\nrepeat 2\ndd 7\ndb 1\nendrepeat\n"
                "dd 9\n"},
        {"id": "scn-asm-fail-literal", "lang": "asm", "march": "arm",
         "opt": 0, "outputs": ["obj"],
         "src": "section code\nlx:\n  ldr r0, =lx\n  bogus r1\n"},
        {"id": "scn-asm-good", "lang": "asm", "march": "arm", "opt": 0,
         "outputs": ["obj"],
         "src": "section code\nl1:\n  mov r1, 5\n  dd 77\n"},
    ]
    runs = [
        {"cfg": canon, "seq": [0, 1, 3, 5],
         "out_lists": [["obj", "img", "hex"], ["obj", "img", "exe"],
                       ["obj"], ["obj"]]},
        {"cfg": canon, "seq": [2, 3, 4, 5, 0, 1],
         "out_lists": [["obj"], ["obj"], ["obj"], ["obj"],
                       ["img", "hex", "obj"], ["exe", "img", "obj"]]},
        {"cfg": other, "seq": [1, 0, 0, 4, 5, 2, 3],
         "out_lists": [["img", "obj", "exe"], ["hex", "img", "obj"],
                       ["obj", "img", "hex"], ["obj"], ["obj"], ["obj"],
                       ["obj"]]},
    ]
    return {"batch": "scenario", "ops": ops, "runs": runs}


def ops_of_run(batch, run, upto=None):
    """The op dicts one simulated process executes, with the per-execution
    order of the outputs applied."""
    out = []
    seq = run["seq"] if upto is None else run["seq"][:upto]
    if "out_lists" in run:
        return [dict(batch["ops"][i], outputs=list(run["out_lists"][pos]))
                for pos, i in enumerate(seq)]
    for pos, i in enumerate(seq):
        op = batch["ops"][i]
        k = run.get("out_orders", [0] * len(run["seq"]))[pos]
        outs = list(op.get("outputs", ["obj"]))
        if k and len(outs) > 1:
            perm = []
            pool = list(outs)
            while pool:
                perm.append(pool.pop(k % len(pool)))
                k //= max(1, len(pool) + 1)
            op = dict(op, outputs=perm)
        out.append(op)
    return out


def execute_batch(batch):
    out = []
    for run in batch["runs"]:
        results = run_worker(run["cfg"], ops_of_run(batch, run))
        out.append(results)
    return out


def compare_batch(batch, results):
    """-> (op executions, successful compilations, comparisons,
    mismatches[(op index, kind, runA, posA, runB, posB)], signatures)"""
    seen = {}
    mism = []
    timeouts = set()
    execs = 0
    ok = 0
    sigs = set()
    for r, (run, res) in enumerate(zip(batch["runs"], results)):
        for pos, (i, one) in enumerate(zip(run["seq"], res)):
            execs += 1
            if "compile" not in one["digests"]:
                ok += 1
            cfg = run["cfg"]
            hist = hashlib.sha256(repr(run["seq"][:pos]).encode()).hexdigest()
            sigs.add((batch["ops"][i]["id"], cfg["hashseed"],
                      cfg.get("idhash"), cfg.get("noise"), hist[:12]))
            if one["digests"].get("compile") == "TIMEOUT":
                # wall-clock guard of the worker fired: says nothing about
                # determinism; the subject is not compared at all
                timeouts.add(i)
                continue
            first = seen.setdefault(i, (r, pos, one["digests"]))
            if first[2] != one["digests"]:
                kinds = sorted(k for k in set(first[2]) | set(one["digests"])
                               if first[2].get(k) != one["digests"].get(k))
                mism.append((i, kinds, first[0], first[1], r, pos))
    mism = [m for m in mism if m[0] not in timeouts]
    return execs, ok, mism, sigs

# ------------------------------------------------------------ minimisation


def side_of(batch, r, pos, neuts=()):
    """(configuration, history) of the execution at position `pos` of run
    `r`: the configuration also records the order in which that execution
    produced the subject's outputs."""
    run = batch["runs"][r]
    ops = ops_of_run(batch, run, upto=pos + 1)
    cfg = dict(run["cfg"], neutralise=list(neuts),
               outputs_order=list(ops[-1].get("outputs", ["obj"])))
    return cfg, ops[:-1]


def with_order(op, cfg):
    order = cfg.get("outputs_order")
    if not order:
        return op
    outs = [k for k in order if k in op.get("outputs", ["obj"])]
    outs += [k for k in op.get("outputs", ["obj"]) if k not in outs]
    return dict(op, outputs=outs)


def differs(op, a, b, want_kinds=None):
    """a, b: (cfg, history ops).  Runs both in fresh interpreters; returns
    the output kinds whose digests differ."""
    with ThreadPoolExecutor(max_workers=2) as ex:
        fa = ex.submit(run_worker, a[0], a[1] + [with_order(op, a[0])])
        fb = ex.submit(run_worker, b[0], b[1] + [with_order(op, b[0])])
        ra = fa.result()[-1]["digests"]
        rb = fb.result()[-1]["digests"]
    return sorted(k for k in set(ra) | set(rb) if ra.get(k) != rb.get(k))


def minimise(batch, mm, budget, neuts=()):
    """Reduce a mismatch to: one op, two configurations, shortest histories,
    fewest differing knobs, smallest program."""
    i, kinds, ra, pa, rb, pb = mm
    op = dict(batch["ops"][i])
    runs = batch["runs"]
    a = side_of(batch, ra, pa, neuts)
    b = side_of(batch, rb, pb, neuts)
    steps = []

    def still(a2, b2, op2=None):
        if budget[0] <= 0:
            return False
        budget[0] -= 1
        try:
            return bool(differs(op2 or op, a2, b2))
        except HarnessError:
            return False

    if not still(a, b):
        return None  # not reproducible from (config, history): report raw
    # 1. histories: none at all, else drop ops one at a time from the end
    for side in (0, 1):
        cur = [a, b]
        if cur[side][1]:
            cand = (cur[side][0], [])
            trial = (cand, b) if side == 0 else (a, cand)
            if still(*trial):
                a, b = trial
                steps.append(f"history of side {side} dropped")
            else:
                h = list(cur[side][1])
                j = len(h) - 1
                while j >= 0 and budget[0] > 0:
                    cand = (cur[side][0], h[:j] + h[j + 1:])
                    trial = (cand, b) if side == 0 else (a, cand)
                    if still(*trial):
                        h = cand[1]
                        a, b = trial
                        cur = [a, b]
                    j -= 1
    # 2. knobs: canonical configuration on either side if possible, then
    #    make b equal to a one knob at a time
    canon = {"hashseed": 0, "idhash": None, "noise": 0,
             "clock": {"start": 1.0e9, "step": 0.0},
             "neutralise": list(neuts)}
    for which in ("a", "b"):
        cur = a if which == "a" else b
        cand = dict(canon, outputs_order=cur[0].get("outputs_order"))
        if cur[0] != cand:
            trial = ((cand, a[1]), b) if which == "a" else (a, (cand, b[1]))
            if still(*trial):
                a, b = trial
                steps.append(f"side {which} canonical")
    for knob in ("clock", "noise", "idhash", "hashseed", "outputs_order"):
        if a[0].get(knob) != b[0].get(knob):
            cfg2 = dict(b[0])
            cfg2[knob] = a[0].get(knob)
            if still(a, (cfg2, b[1])):
                b = (cfg2, b[1])
                steps.append(f"knob {knob} irrelevant")
    # 3. outputs: only the object file if that already differs
    if op["outputs"] != ["obj"]:
        op2 = dict(op, outputs=["obj"])
        if still(a, b, op2):
            op = op2
            a = (dict(a[0], outputs_order=["obj"]), a[1])
            b = (dict(b[0], outputs_order=["obj"]), b[1])
    # 4. program: drop whole top level items / lines while it still differs
    lines = op["src"].split("\n")
    chunk = max(1, len(lines) // 4)
    while chunk >= 1 and budget[0] > 0:
        j = 0
        while j < len(lines) and budget[0] > 0:
            cand = lines[:j] + lines[j + chunk:]
            op2 = dict(op, src="\n".join(cand))
            base = run_safe(canon, op2)
            if base is not None and "compile" not in base and \
                    still(a, b, op2):
                lines = cand
                op = op2
            else:
                j += chunk
        chunk //= 2
    kinds = differs(op, a, b)
    return {"op": op, "a": {"cfg": a[0], "history": a[1]},
            "b": {"cfg": b[0], "history": b[1]}, "kinds": kinds,
            "steps": steps}


def run_safe(cfg, op):
    try:
        return run_worker(cfg, [op])[-1]["digests"]
    except HarnessError:
        return None


def localise(rp):
    """First differing section of ppci's own text report (which phase)."""
    op = dict(rp["op"], report=True, keep_text=True)
    try:
        ra = run_worker(rp["a"]["cfg"], rp["a"]["history"]
                        + [with_order(op, rp["a"]["cfg"])])[-1]
        rb = run_worker(rp["b"]["cfg"], rp["b"]["history"]
                        + [with_order(op, rp["b"]["cfg"])])[-1]
    except HarnessError as e:
        return {"error": str(e)[:200]}
    la = ra.get("report", "").splitlines()
    lb = rb.get("report", "").splitlines()
    for n, (x, y) in enumerate(zip(la, lb)):
        if x != y:
            heads = [l for l in la[:n] if l and l[0] not in " \t$"
                     and len(l) < 80][-3:]
            return {"first_diff_line": n, "under": heads,
                    "a": la[max(0, n - 2):n + 3], "b": lb[max(0, n - 2):n + 3]}
    if len(la) != len(lb):
        return {"first_diff_line": min(len(la), len(lb)),
                "note": "one report is longer"}
    return {"note": "reports identical, only the serialised object differs"}


def site_of(loc):
    """Coarse class key of a difference: the compiler phase in which the two
    reports first diverge."""
    under = " | ".join(loc.get("under", []))
    txt = under + " " + " ".join(loc.get("a", []))
    low = txt.lower()
    if "error" in loc:
        return "unknown"
    if "note" in loc:
        return "object-serialisation"
    if "selection trees" in low or "dag" in low:
        return "instruction-selection"
    if "phi" in low or "block" in low and "{" in low:
        return "ir-optimisation"
    if "$" in " ".join(loc.get("a", [])):
        return "register-allocation-or-later"
    return "other"

# ----------------------------------------------------------------- driver


def replay(path):
    with open(path) as f:
        rp = json.load(f)
    kinds = differs(rp["op"], (rp["a"]["cfg"], rp["a"]["history"]),
                    (rp["b"]["cfg"], rp["b"]["history"]))
    print(json.dumps({"op": {k: v for k, v in rp["op"].items() if k != "src"},
                      "a": rp["a"]["cfg"], "b": rp["b"]["cfg"],
                      "history_a": len(rp["a"]["history"]),
                      "history_b": len(rp["b"]["history"]),
                      "differing_outputs": kinds}, indent=1))
    print(rp["op"]["src"])
    if kinds:
        print(f"  same source and options, outputs {kinds} differ between "
              f"the two recorded process configurations")
        print(f"VIOLATION property={PROP} replay={path}")
        return report.EXIT_VIOLATION
    print("replay did not reproduce a difference")
    return report.EXIT_HELD


def main():
    ap = argparse.ArgumentParser()
    ap.add_argument("--tier", default=os.environ.get("VERIF_TIER", "quick"))
    ap.add_argument("--batches", type=int, default=0)
    ap.add_argument("--replay")
    ap.add_argument("--show", type=int, default=None)
    args = ap.parse_args()
    tier = args.tier if args.tier in ("quick", "thorough") else "quick"
    seed = report.env_seed()
    sw = report.Stopwatch()
    sys.path.insert(0, report.REPO)
    # subjects that live in real files are written below one scratch root per
    # run of this check (outside /repo and /verif), removed at the end
    own_scratch = "VERIF_C30_SCRATCH" not in os.environ
    if own_scratch:
        os.environ["VERIF_C30_SCRATCH"] = \
            f"/var/tmp/ppci-verif-c30-files-{os.getpid()}"
    try:
        return _main(args, tier, seed, sw)
    finally:
        if own_scratch:
            shutil.rmtree(os.environ["VERIF_C30_SCRATCH"],
                          ignore_errors=True)


def _main(args, tier, seed, sw):
    try:
        if args.replay:
            return replay(args.replay)
        if args.show is not None:
            print(json.dumps(gen_batch(seed, args.show), indent=1))
            return 0
        return explore(tier, seed, args, sw)
    except HarnessError as e:
        print(f"HARNESS-ERROR property={PROP}: {e}")
        return report.EXIT_HARNESS
    except Exception:  # never let a harness bug look like a verdict
        import traceback
        print(f"HARNESS-ERROR property={PROP}: unexpected exception\n"
              + traceback.format_exc())
        return report.EXIT_HARNESS


def explore(tier, seed, args, sw):
    nb = args.batches or {"quick": 24, "thorough": 900}[tier]
    workers = int(os.environ.get("VERIF_WORKERS", "0")) or \
        min(16, os.cpu_count() or 1)
    batches = [gen_batch(seed, b) for b in range(nb)] + [scenario_batch()]
    # every worker run of every batch is an independent subprocess
    jobs = [(bi, ri) for bi, b in enumerate(batches)
            for ri in range(len(b["runs"]))]

    def do(job):
        bi, ri = job
        b = batches[bi]
        run = b["runs"][ri]
        return run_worker(run["cfg"], ops_of_run(b, run))

    with ThreadPoolExecutor(max_workers=workers) as ex:
        outs = list(ex.map(do, jobs))
    per_batch = {}
    for (bi, ri), res in zip(jobs, outs):
        per_batch.setdefault(bi, {})[ri] = res

    # determinism self-test of the harness: identical (config, history) twice
    # must give identical digests - otherwise a difference between
    # configurations would mean nothing
    st_jobs = [(bi, 0) for bi in range(0, nb, max(1, nb // 6))][:6]
    st_jobs += [(bi, len(batches[bi]["runs"]) - 1) for bi, _ in st_jobs[:3]]
    with ThreadPoolExecutor(max_workers=workers) as ex:
        again = list(ex.map(do, st_jobs))
    nondet = [(bi, ri) for (bi, ri), res in zip(st_jobs, again)
              if [o["digests"] for o in res]
              != [o["digests"] for o in per_batch[bi][ri]]]

    execs = ok = 0
    sigs = set()
    all_mm = []
    for bi, b in enumerate(batches):
        results = [per_batch[bi][ri] for ri in range(len(b["runs"]))]
        e, o, mm, s = compare_batch(b, results)
        execs += e
        ok += o
        sigs |= s
        for m in mm:
            all_mm.append((bi, m))

    known = {k["id"]: k for k in report.load_known_findings(PROP)}
    known_seen = {}
    new_paths = []
    budget = [40 if tier == "quick" else 200]
    classes = {}
    if nondet:
        # same seed, same configuration, same history, different bytes: the
        # strongest form of the violation (nothing the simulator controls
        # explains the difference)
        bi, ri = nondet[0]
        b = batches[bi]
        run = b["runs"][ri]
        payload = {"property": PROP, "key": "same-config-rerun",
                   "detail": "two fresh interpreters with identical hash "
                             "seed, identity-hash seed, heap noise, clock and "
                             "history produced different digests",
                   "op": b["ops"][run["seq"][-1]],
                   "a": dict(zip(("cfg", "history"),
                                 side_of(b, ri, len(run["seq"]) - 1))),
                   "b": dict(zip(("cfg", "history"),
                                 side_of(b, ri, len(run["seq"]) - 1)))}
        path = report.write_replay(PROP, f"rerun-seed{seed}-b{bi}", payload)
        new_paths.append(("same-config-rerun", path, payload["detail"]))
    # ---- attribution: every mismatch is either explained by a listed
    # finding or reported.  The batches that show mismatches are executed
    # once more with the neutralisers of all listed findings active; whatever
    # still differs then is new.
    neuts = [NEUTRALISERS[f] for f in known if f in NEUTRALISERS]
    residual = list(all_mm)
    explained = 0
    if all_mm and neuts:
        affected = sorted({bi for bi, _ in all_mm})
        njobs = [(bi, ri) for bi in affected
                 for ri in range(len(batches[bi]["runs"]))]

        def do_neut(job):
            bi, ri = job
            b = batches[bi]
            run = b["runs"][ri]
            return run_worker(dict(run["cfg"], neutralise=neuts),
                              ops_of_run(b, run))

        with ThreadPoolExecutor(max_workers=workers) as ex:
            nouts = list(ex.map(do_neut, njobs))
        per_n = {}
        for (bi, ri), res in zip(njobs, nouts):
            per_n.setdefault(bi, {})[ri] = res
        residual = []
        for bi in affected:
            b = batches[bi]
            results = [per_n[bi][ri] for ri in range(len(b["runs"]))]
            _, _, mm, _ = compare_batch(b, results)
            residual += [(bi, m) for m in mm]
        explained = len(all_mm) - len(residual)
        if explained > 0:
            # which listed finding(s): test the neutralisers one at a time on
            # a few of the explained mismatches
            res_keys = {(bi, m[0]) for bi, m in residual}
            tested = 0
            for bi, m in all_mm:
                if (bi, m[0]) in res_keys or tested >= 3:
                    continue
                tested += 1
                i, kinds, ra, pa, rb, pb = m
                bt = batches[bi]
                raw = {"op": bt["ops"][i],
                       "a": dict(zip(("cfg", "history"),
                                     side_of(bt, ra, pa))),
                       "b": dict(zip(("cfg", "history"),
                                     side_of(bt, rb, pb)))}
                fid = classify(raw, {}, known)
                if fid is not None:
                    known_seen.setdefault(
                        fid, f"{raw['op']['id']} outputs {kinds} differ "
                             f"between run {ra} (position {pa}) and run {rb} "
                             f"(position {pb}) of batch {bi}")
            if not known_seen:
                for fid in known:
                    if fid in NEUTRALISERS:
                        known_seen[fid] = "explained by batch re-execution"
    # ---- the residue is new: minimise one representative per class, but
    # report every residual mismatch even when the budget runs out
    reported_batches = set()
    for bi, m in residual:
        if budget[0] <= 0 or len(classes) >= 6:
            break
        rp = minimise(batches[bi], m, budget, neuts)
        if rp is None:
            continue
        loc = localise(rp)
        site = site_of(loc)
        key = f"{rp['op']['march']}:{site}"
        if key in classes:
            reported_batches.add(bi)
            continue
        classes[key] = True
        detail = (f"{rp['op']['id']} outputs {rp['kinds']} differ between "
                  f"cfg {rp['a']['cfg']} (history {len(rp['a']['history'])}) "
                  f"and cfg {rp['b']['cfg']} (history "
                  f"{len(rp['b']['history'])}); first divergence: {site}")
        rp.update({"property": PROP, "key": key, "detail": detail,
                   "localisation": loc, "verif_seed": seed, "batch": bi})
        path = report.write_replay(
            PROP, f"{key.replace(':', '_')}-seed{seed}-b{bi}", rp)
        new_paths.append((key, path, detail))
        reported_batches.add(bi)
    if residual and not new_paths:
        # could not be reduced (budget / reproducibility): still a violation
        bi, m = residual[0]
        i, kinds, ra, pa, rb, pb = m
        bt = batches[bi]
        payload = {"property": PROP, "key": "unreduced",
                   "op": bt["ops"][i],
                   "a": dict(zip(("cfg", "history"),
                                 side_of(bt, ra, pa, neuts))),
                   "b": dict(zip(("cfg", "history"),
                                 side_of(bt, rb, pb, neuts))),
                   "detail": f"{bt['ops'][i]['id']} outputs {kinds} differ "
                             f"between two runs of batch {bi} (not reduced)"}
        path = report.write_replay(PROP, f"unreduced-seed{seed}-b{bi}",
                                   payload)
        new_paths.append(("unreduced", path, payload["detail"]))

    # ---- regression replays: minimised violations found earlier (by the
    # thorough tier) and repaired since; each must stay repaired
    import glob
    reg_files = sorted(glob.glob(os.path.join(report.VERIF, "regressions",
                                              PROP, "*.json")))
    reg_checked = 0
    for rf in reg_files:
        with open(rf) as f:
            rp = json.load(f)
        kinds = differs(rp["op"], (rp["a"]["cfg"], rp["a"]["history"]),
                        (rp["b"]["cfg"], rp["b"]["history"]))
        reg_checked += 1
        if kinds:
            new_paths.append((rp.get("key", "regression"), rf,
                              f"regression replay differs again in {kinds}: "
                              + rp.get("detail", "")))

    for fid in sorted(known_seen):
        print(f"KNOWN-FINDING: property={PROP} {fid}: "
              f"{known.get(fid, {}).get('what', '')}")

    wall = sw.elapsed()
    nruns = len(jobs) + len(st_jobs)
    sample_b = batches[0]
    coverage = {
        "evaluations": execs,
        "distinct_nontrivial": len(sigs),
        "rule": ("evaluation = one compilation of a subject inside one "
                 "simulated process; a process = fresh interpreter with "
                 "seeded PYTHONHASHSEED, seeded identity hash (or native hash "
                 "with ASLR off + seeded heap noise), simulated clock and a "
                 "seeded history of other compilations; distinct = distinct "
                 "(subject+target+options, hash seed, identity-hash seed, "
                 "noise, history prefix); non-trivial = all counted (every "
                 "one is compared against the other executions of the same "
                 "subject)"),
        "samples": [{"batch": 0,
                     "ops": [{k: v for k, v in o.items() if k != "src"}
                             for o in sample_b["ops"]],
                     "first_source": sample_b["ops"][0]["src"],
                     "runs": [{"cfg": r["cfg"], "seq": r["seq"]}
                              for r in sample_b["runs"]]}],
        "simulated_process_runs": nruns,
        "runs_per_hour": int(nruns / max(wall, 1e-6) * 3600),
        "compilations_per_hour": int(execs / max(wall, 1e-6) * 3600),
        "successful_compilations": ok,
        "subjects_x_targets": sum(len(b["ops"]) for b in batches),
        "mismatching_executions": len(all_mm),
        "mismatches_explained_by_known_findings": explained,
        "mismatches_unexplained": len(residual),
        "regression_replays_checked": reg_checked,
        "seeds": {"VERIF_SEED": seed, "batches": [0, nb - 1]},
        "faults_fired": {
            "hash_seed_changed": sum(
                1 for b in batches for r in b["runs"]
                if r["cfg"]["hashseed"] != 0),
            "identity_hash_reseeded": sum(
                1 for b in batches for r in b["runs"]
                if r["cfg"].get("idhash") is not None),
            "heap_noise": sum(1 for b in batches for r in b["runs"]
                              if r["cfg"].get("noise")),
            "clock_jump": sum(1 for b in batches for r in b["runs"]
                              if r["cfg"]["clock"]["step"]),
            "history_before_subject": sum(
                max(0, len(r["seq"]) - 1) for b in batches
                for r in b["runs"]),
            "same_op_twice_in_process": sum(
                len(r["seq"]) - len(set(r["seq"])) for b in batches
                for r in b["runs"]),
        },
        "aslr_off_available": bool(setarch_prefix()),
        "determinism_selftest": {"reruns": len(st_jobs),
                                 "mismatches": len(nondet)},
        "components_real": ["ppci.api.cc / link, C front-end, optimizer, "
                            "instruction selection, register allocation, "
                            "assembler back-ends, linker, object / ELF "
                            "writers (whole compiler, unmodified)"],
        "components_stub": ["time module inside ppci modules (simulated "
                            "clock)", "__hash__ of ppci classes that inherit "
                            "object.__hash__ (seeded)"],
        "known_findings_reobserved": known_seen,
        "new_violations": [{"key": k, "detail": d} for k, _, d in new_paths],
    }
    report.write_evidence(PROP, tier, seed, coverage, wall, len(new_paths), [
        "identity hashes of builtin objects (types, functions) cannot be "
        "re-seeded; they are only perturbed by heap noise with ASLR off",
        "programs are generated C in the subset the mature back-ends accept; "
        "a subject that fails to compile identically everywhere counts as "
        "agreeing",
        "formats that carry a timestamp by design (PE/exe, uImage) are "
        "excluded"])
    print(f"{PROP} tier={tier} seed={seed} batches={nb} process_runs={nruns} "
          f"compilations={execs} ok={ok} distinct={len(sigs)} "
          f"mismatches={len(all_mm)} wall_s={wall:.1f}")
    if new_paths:
        for key, path, detail in new_paths:
            print(f"  {key}: {detail}")
            print(f"VIOLATION property={PROP} replay={path}")
        return report.EXIT_VIOLATION
    print(f"OK property={PROP} held on everything explored")
    return report.EXIT_HELD


NEUTRALISERS = {
    # known finding id -> neutraliser understood by c30_worker.py
    "arm-asm-literal-counter": "arm-asm-literal-counter",
}


def classify(rp, loc, known):
    """A mismatch is attributed to a listed finding iff it disappears when
    exactly that finding's neutraliser is active (and the finding's scope
    matches); anything that survives is a new violation."""
    for fid, neut in NEUTRALISERS.items():
        if fid not in known:
            continue
        scope = known[fid].get("scope", {})
        if scope.get("march") and \
                not str(rp["op"]["march"]).startswith(scope["march"]):
            continue
        a = (dict(rp["a"]["cfg"], neutralise=[neut]), rp["a"]["history"])
        b = (dict(rp["b"]["cfg"], neutralise=[neut]), rp["b"]["history"])
        try:
            if not differs(rp["op"], a, b):
                return fid
        except HarnessError:
            pass
    return None


if __name__ == "__main__":
    sys.exit(main())
