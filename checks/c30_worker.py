#!/venv/bin/python
"""C30 worker: ONE simulated process life time.

Runs inside a fresh interpreter whose hidden inputs were all decided by the
parent from the seed:
  * PYTHONHASHSEED (environment)          - str hash randomisation
  * identity hash of ppci objects          - seeded, address independent
  * heap noise before `import ppci`        - shifts addresses (native mode)
  * wall clock                             - simulated, seeded start / step
  * in-process history                     - the sequence of ops executed

Reads a JSON job from stdin, prints one line "RESULT <json>".
"""

import hashlib
import io
import json
import os
import random
import sys
import types


def main():
    job = json.load(sys.stdin)
    repo = job.get("repo", "/repo")
    sys.path.insert(0, repo)

    # ---- heap noise: deterministic allocation pattern before ppci exists
    noise = []
    rnd = random.Random(job.get("noise", 0))
    for _ in range(job.get("noise", 0) % 5000):
        noise.append(bytearray(rnd.randrange(16, 4000)))
    keep = noise[::3]  # free two thirds: holes for later allocations
    del noise

    import ppci
    if not os.path.realpath(ppci.__file__).startswith(
            os.path.realpath(repo) + os.sep):
        print("RESULT " + json.dumps({"harness_error":
                                      "ppci not imported from " + repo}))
        return
    import ppci.api as api
    from ppci.binutils import layout as layout_mod
    from ppci.format.elf import write_elf
    import logging
    logging.disable(logging.CRITICAL)

    # ---- simulated clock in every ppci module that imported `time`
    clock = job.get("clock")
    if clock:
        import time as real_time
        state = {"t": float(clock["start"])}

        def now():
            state["t"] += clock["step"]
            return state["t"]

        fake = types.SimpleNamespace(
            time=now,
            ctime=lambda t=None: real_time.asctime(
                real_time.gmtime(now() if t is None else t)),
            strftime=lambda fmt, t=None: real_time.strftime(
                fmt, real_time.gmtime(now()) if t is None else t),
            gmtime=lambda t=None: real_time.gmtime(now() if t is None else t),
            localtime=lambda t=None: real_time.gmtime(
                now() if t is None else t),
            monotonic=now, perf_counter=now, sleep=lambda s: None,
            asctime=real_time.asctime, struct_time=real_time.struct_time,
            mktime=real_time.mktime,
        )
        for name, mod in list(sys.modules.items()):
            if name.startswith("ppci") and mod is not None and \
                    getattr(mod, "time", None) is real_time:
                mod.time = fake

    # ---- seeded identity hash on ppci's own classes
    patched = 0
    if job.get("idhash") is not None:
        hrnd = random.Random(job["idhash"])
        side = {}

        def seeded_hash(self):
            try:
                return self.__dict__["_verif_h"]
            except KeyError:
                h = hrnd.getrandbits(60)
                self.__dict__["_verif_h"] = h
                return h
            except AttributeError:  # __slots__ without __dict__
                k = id(self)
                h = side.get(k)
                if h is None:
                    h = side[k] = hrnd.getrandbits(60)
                return h

        import pkgutil
        import importlib
        for m in pkgutil.walk_packages(ppci.__path__, "ppci."):
            if any(x in m.name for x in (".cli", "ptcli", ".wasm.execution",
                                         "lang.python", "__main__")):
                continue
            if m.name.startswith(("ppci.arch.", "ppci.codegen", "ppci.ir",
                                  "ppci.opt", "ppci.binutils", "ppci.lang.c",
                                  "ppci.utils", "ppci.graph", "ppci.irutils",
                                  "ppci.format")):
                try:
                    importlib.import_module(m.name)
                except Exception:
                    pass
        for name, mod in list(sys.modules.items()):
            if not name.startswith("ppci") or mod is None:
                continue
            for cls in list(vars(mod).values()):
                if isinstance(cls, type) and \
                        cls.__module__.startswith("ppci") and \
                        cls.__hash__ is object.__hash__ and \
                        "__hash__" not in cls.__dict__:
                    try:
                        cls.__hash__ = seeded_hash
                        patched += 1
                    except TypeError:
                        pass

    # ---- history: execute the ops in order
    results = []
    neutralise = set(job.get("neutralise", []))
    import signal

    class OpTimeout(BaseException):
        pass

    def on_alarm(*a):
        raise OpTimeout()

    signal.signal(signal.SIGALRM, on_alarm)
    for op in job["ops"]:
        if "arm-asm-literal-counter" in neutralise and \
                str(op["march"]).startswith("arm"):
            # neutraliser of a known finding (see known_findings.json): makes
            # exactly that one site history independent, so that a mismatch
            # which survives it is something else
            asm = api.get_arch(op["march"]).assembler
            if hasattr(asm, "lit_counter"):
                asm.lit_counter = 0
        # wall-clock guard only (some back-ends do not terminate on some
        # inputs); a subject that trips it is excluded from the comparison
        signal.alarm(int(job.get("op_timeout", 240)))
        try:
            results.append(run_op(api, layout_mod, write_elf, op))
        except OpTimeout:
            results.append({"id": op["id"], "digests": {"compile": "TIMEOUT"},
                            "texts": {}})
        finally:
            signal.alarm(0)
    print("RESULT " + json.dumps({"results": results, "patched": patched,
                                  "hashseed": os.environ.get(
                                      "PYTHONHASHSEED")}))
    del keep


LAYOUT = """
MEMORY code LOCATION=0x1000 SIZE=0x100000 {
  SECTION(code)
  ALIGN(8)
  SECTION(rodata)
}
MEMORY ram LOCATION=0x20000000 SIZE=0x100000 {
  SECTION(data)
}
"""
LAYOUT_ENTRY = """
ENTRY(%s)
MEMORY code LOCATION=0x2000 SIZE=0x100000 {
  DEFINESYMBOL(code_start)
  SECTION(code)
  ALIGN(16)
  DEFINESYMBOL(code_end)
  SECTION(rodata)
}
MEMORY ram LOCATION=0x20000000 SIZE=0x100000 {
  SECTION(data)
  DEFINESYMBOL(data_end)
}
"""


LAYOUT_CODE_ONLY = """
MEMORY code LOCATION=0x4000 SIZE=0x100000 {
  SECTION(code)
}
"""


def layout_text(op):
    """The layout is part of the options of a subject (same subject, same
    layout); some layouts name an entry symbol."""
    if op.get("layout") == 1 and op.get("entry"):
        return LAYOUT_ENTRY % op["entry"]
    if op.get("layout") == 2:
        return LAYOUT_CODE_ONLY  # data / rodata stay outside every memory
    return LAYOUT


def make_coptions(api, op):
    copt = op.get("copt")
    if not copt:
        return None
    co = api.COptions()
    co.set("freestanding", bool(copt.get("freestanding")))
    co.set("std", copt.get("std", "c99"))
    co.set("trigraphs", bool(copt.get("trigraphs")))
    for name, value in copt.get("defines", []):
        co.add_define(name, value)
    return co


class RecipeResult:
    """What a build recipe produced: stands in for the object of the op."""

    def __init__(self, text):
        self.text = text
        self.images = []

    def save(self, f):
        f.write(self.text)


def run_recipe(api, op):
    """A build directory that is wiped and rewritten for every recipe (one
    build directory, many builds - like a developer's tree), then built with
    ppci.api.construct; the files the recipe produces are the output."""
    import shutil
    root = os.path.join(job_scratch(), f"build-{os.getpid()}")
    shutil.rmtree(root, ignore_errors=True)
    for name, text in op["files"].items():
        path = os.path.join(root, name)
        os.makedirs(os.path.dirname(path), exist_ok=True)
        with open(path, "w") as fh:
            fh.write(text)
    os.makedirs(os.path.join(root, "obj"), exist_ok=True)
    api.construct(os.path.join(root, "build.xml"), op.get("targets", []))
    out = []
    for name in op["produced"]:
        with open(os.path.join(root, name), "rb") as fh:
            out.append(name + ":" + fh.read().hex())
    return RecipeResult("\n".join(out))


def job_scratch():
    return os.environ.get("VERIF_C30_SCRATCH", "/var/tmp/ppci-verif-c30-files")


def sha(b):
    if isinstance(b, str):
        b = b.encode("utf-8", "surrogatepass")
    return hashlib.sha256(b).hexdigest()[:24]


def run_op(api, layout_mod, write_elf, op):
    """Compile one subject; digest every requested output.  An exception is
    an output too (success in one configuration and failure in another is a
    difference)."""
    import contextlib

    out = {"id": op["id"], "digests": {}, "texts": {}}
    sink = io.StringIO()
    keep_text = op.get("keep_text", False)
    try:
        with contextlib.redirect_stdout(sink), contextlib.redirect_stderr(sink):
            kind = op.get("lang", "c")
            rep = None
            if op.get("report"):
                from ppci.utils.reporting import TextReportGenerator
                repf = io.StringIO()
                rep = TextReportGenerator(repf)
                rep.header()
            if kind == "c" and op.get("files"):
                # the translation unit and its headers live in real files, in
                # a directory whose name depends only on the contents (the
                # path is part of the input: __FILE__, debug info)
                import hashlib as _h
                key = _h.sha256(repr(sorted(op["files"].items()))
                                .encode()).hexdigest()[:16]
                root = os.path.join(job_scratch(), key)
                os.makedirs(root, exist_ok=True)
                for name, text in op["files"].items():
                    path = os.path.join(root, name)
                    if not os.path.exists(path):
                        tmp = path + f".{os.getpid()}.tmp"
                        with open(tmp, "w") as fh:
                            fh.write(text)
                        os.replace(tmp, path)
                with open(os.path.join(root, op["main"])) as fh:
                    obj = api.cc(fh, op["march"], opt_level=op["opt"],
                                 debug=op.get("debug", False), reporter=rep)
            elif kind == "c":
                obj = api.cc(io.StringIO(op["src"]), op["march"],
                             opt_level=op["opt"], debug=op.get("debug", False),
                             reporter=rep, coptions=make_coptions(api, op))
            elif kind == "recipe":
                obj = run_recipe(api, op)
            elif kind == "c3":
                srcs = [op["src"]] + list(op.get("more_srcs", []))
                obj = api.c3c([io.StringIO(x) for x in srcs], [], op["march"],
                              opt_level=op["opt"],
                              debug=op.get("debug", False), reporter=rep)
            elif kind == "asm":
                obj = api.asm(io.StringIO(op["src"]), op["march"])
            elif kind == "bf":
                obj = api.bfcompile(io.StringIO(op["src"]), op["march"])
            elif kind == "pascal":
                obj = api.pascal([io.StringIO(op["src"])], op["march"],
                                 opt_level=op["opt"])
            elif kind == "python":
                obj = api.pycompile(io.StringIO(op["src"]), op["march"])
            elif kind == "project":
                # several modules: main + library members in an archive,
                # resolved by the linker
                from ppci.binutils.archive import archive
                members = [api.cc(io.StringIO(m), op["march"],
                                  opt_level=op["opt"])
                           for m in op["members"]]
                lib = archive(members)
                main = api.cc(io.StringIO(op["src"]), op["march"],
                              opt_level=op["opt"])
                extra = [api.cc(io.StringIO(m), op["march"],
                                opt_level=op["opt"])
                         for m in op.get("extra", [])]
                lay = layout_mod.Layout.load(io.StringIO(layout_text(op)))
                obj = api.link([main] + extra, lay, libraries=[lib])
            else:
                raise ValueError(kind)
    except Exception as e:  # behaviour of the code under test
        # Only *that* the compilation fails is compared (success in one
        # configuration and failure in another is a difference in output);
        # the wording of a diagnostic is not an object file or image, and it
        # legitimately contains internal names.
        out["digests"]["compile"] = "ERR:" + type(e).__name__
        out["error_text"] = str(e)[:200]
        return out
    if op.get("report"):
        import re
        out["report"] = re.sub(r"0x[0-9a-f]{8,}", "0xADDR", repf.getvalue())
    link_objs = [obj]
    if op.get("extra_asm"):
        try:
            with contextlib.redirect_stdout(sink), \
                    contextlib.redirect_stderr(sink):
                link_objs.append(api.asm(io.StringIO(op["extra_asm"]),
                                         op["march"]))
        except Exception:
            pass
    for kind in op.get("outputs", ["obj"]):
        try:
            with contextlib.redirect_stdout(sink), \
                    contextlib.redirect_stderr(sink):
                if kind == "obj":
                    f = io.StringIO()
                    obj.save(f)
                    data = f.getvalue() + "".join(
                        img.name + ":" + img.data.hex()
                        for img in obj.images)
                elif kind == "elf":
                    f = io.BytesIO()
                    write_elf(obj, f, type="relocatable")
                    data = f.getvalue()
                elif kind == "img":
                    lay = layout_mod.Layout.load(io.StringIO(layout_text(op)))
                    linked = api.link(link_objs, lay, partial_link=False,
                                      extra_symbols=op.get("extra_symbols"))
                    f = io.StringIO()
                    linked.save(f)
                    data = f.getvalue() + "".join(
                        img.name + ":" + img.data.hex()
                        for img in linked.images)
                elif kind == "rtimg":
                    # link against the (lazily built, cached) compiler runtime
                    lay = layout_mod.Layout.load(io.StringIO(layout_text(op)))
                    linked = api.link([obj], lay, use_runtime=True)
                    f = io.StringIO()
                    linked.save(f)
                    data = f.getvalue() + "".join(
                        img.name + ":" + img.data.hex()
                        for img in linked.images)
                elif kind == "plink":
                    linked = api.link([obj], partial_link=True,
                                      debug=op.get("debug", False))
                    f = io.StringIO()
                    linked.save(f)
                    data = f.getvalue()
                elif kind in ("irobj", "irjson"):
                    # through the textual / JSON form of the IR and back
                    from ppci import irutils
                    m = api.c_to_ir(io.StringIO(op["src"]), op["march"])
                    api.optimize(m, level=op["opt"])
                    if kind == "irobj":
                        f = io.StringIO()
                        irutils.print_module(m, file=f)
                        m2 = irutils.read_module(io.StringIO(f.getvalue()))
                        text = f.getvalue()
                    else:
                        text = irutils.to_json(m)
                        m2 = irutils.from_json(text)
                    obj2 = api.ir_to_object([m2], op["march"])
                    f = io.StringIO()
                    obj2.save(f)
                    # only the object counts: the IR text itself is neither
                    # an object file nor an image (its value names are not
                    # stable across processes, which is outside C30)
                    data = f.getvalue()
                elif kind == "ar":
                    from ppci.binutils.archive import archive
                    f = io.StringIO()
                    archive([obj]).save(f)
                    data = f.getvalue()
                elif kind == "hex":
                    from ppci.format.hexfile import HexFile
                    lay = layout_mod.Layout.load(io.StringIO(layout_text(op)))
                    linked = api.link([obj], lay, partial_link=False)
                    hf = HexFile()
                    for img in linked.images:
                        hf.add_region(img.address, img.data)
                    f = io.StringIO()
                    hf.save(f)
                    data = f.getvalue()
                elif kind == "exe":
                    lay = layout_mod.Layout.load(io.StringIO(layout_text(op)))
                    linked = api.link(link_objs, lay, partial_link=False)
                    f = io.BytesIO()
                    write_elf(linked, f, type="executable")
                    data = f.getvalue()
                else:
                    raise ValueError(kind)
            out["digests"][kind] = sha(data)
            if keep_text:
                out["texts"][kind] = data if isinstance(data, str) \
                    else data.hex()
        except Exception as e:
            out["digests"][kind] = f"ERR:{type(e).__name__}"
    return out


if __name__ == "__main__":
    main()
