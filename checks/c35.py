#!/venv/bin/python
"""C35 - GDB remote serial protocol: framing, acknowledgement, retransmission,
no incoming message lost or delivered twice.

Deterministic simulation: the real RspHandler / decoder / TCP transport (and
GdbDebugDriver) run on simulated threads, locks, queues, sockets and a virtual
clock; a seeded scheduler decides every interleaving, chunking and delay; a
reference RSP end-point written from the GDB manual plays the remote side and
injects faults (corruption, NACKs, lost acks, noise, close).  Oracles are
evaluated over the recorded history.  See DESIGN.md, section C35.
"""

import hashlib
import json
import logging
import os
import queue as real_queue
import sys
import types

sys.path.insert(0, os.path.dirname(os.path.dirname(os.path.abspath(__file__))))
from sim import report  # noqa: E402

report.ensure_repo_on_path()

from sim import driver, sched, wire, rsp_ref  # noqa: E402
from sim.sched import Sim, SimThread, SimLock, SimQueue  # noqa: E402

import ppci.binutils.dbg.gdb.rsp as rsp_mod  # noqa: E402
import ppci.binutils.dbg.gdb.transport as transport_mod  # noqa: E402
import ppci.binutils.dbg.gdb.client as client_mod  # noqa: E402

logging.disable(logging.CRITICAL)

PROP = "C35"

from ppci.api import get_arch  # noqa: E402
from ppci.binutils.dbg.debug_driver import DebugState  # noqa: E402

ARCH = get_arch("example")
STOPPED = DebugState.STOPPED
REGS_HEX = "443322118877665500ccbbaa"  # r0, r1, r2 little endian

# ---- seams -----------------------------------------------------------------
# The three modules resolve Queue / Lock / Thread / socket / select through
# their own module globals.  One simulated run models one process life time:
# the modules are executed afresh at the start of every run (so module and
# class level state starts from import state and cannot leak from one run
# into the next), with the stdlib modules they import replaced by shims that
# hand out the simulator's versions - also to code that runs at import time.
import importlib  # noqa: E402
import queue as _real_queue_mod  # noqa: E402
import select as _real_select  # noqa: E402
import socket as _real_socket  # noqa: E402
import threading as _real_threading  # noqa: E402


class Shim(types.ModuleType):
    def __init__(self, real, **over):
        super().__init__(real.__name__)
        self.__dict__["_real"] = real
        self.__dict__.update(over)

    def __getattr__(self, name):
        return getattr(self.__dict__["_real"], name)


import time as _real_time  # noqa: E402


def _sim_now():
    sim = sched.cur()
    return (sim.now if sim is not None else 0) / 1e6


def _sim_sleep(seconds):
    sim = sched.cur()
    if sim is not None and sim.me() is not None:
        sim.sleep(int(seconds * 1e6))


SHIMS = {
    # every clock the code could read is the simulated one
    "time": Shim(_real_time, time=lambda: 1.6e9 + _sim_now(),
                 monotonic=_sim_now, perf_counter=_sim_now,
                 sleep=_sim_sleep),
    "queue": Shim(_real_queue_mod, Queue=SimQueue, SimpleQueue=SimQueue,
                  LifoQueue=SimQueue, PriorityQueue=SimQueue),
    "threading": Shim(_real_threading, Lock=SimLock, Thread=SimThread,
                      RLock=sched.SimRLock, Event=sched.SimEvent,
                      Condition=sched.SimCondition,
                      Semaphore=sched.SimSemaphore,
                      BoundedSemaphore=sched.SimSemaphore,
                      Timer=sched.SimTimer),
    "socket": Shim(_real_socket, socket=wire.SimSocket),
    "select": Shim(_real_select, select=wire.SelectModule.select),
}
import random as _real_random  # noqa: E402
import concurrent.futures as _real_cf  # noqa: E402


class _SeededRandomModule(types.ModuleType):
    """`random` as seen by the code under test: one generator per run,
    seeded from the run's choices."""

    def __init__(self):
        super().__init__("random")
        self._rng = _real_random.Random(0)

    def reseed(self, n):
        self._rng = _real_random.Random(n)

    def __getattr__(self, name):
        if name in ("Random", "SystemRandom"):
            return getattr(_real_random, name)
        return getattr(self._rng, name)


RANDOM_SHIM = _SeededRandomModule()
SHIMS["random"] = RANDOM_SHIM
SHIMS["concurrent.futures"] = Shim(_real_cf,
                                   ThreadPoolExecutor=sched.SimExecutor)
GDB_MODULES = ["ppci.binutils.dbg.gdb.rsp", "ppci.binutils.dbg.gdb.transport",
               "ppci.binutils.dbg.gdb.client"]
_CODE = {}


def fresh_process_state():
    global rsp_mod, transport_mod, client_mod
    import ppci.binutils.dbg.gdb as pkg

    saved = {k: sys.modules.get(k) for k in SHIMS}
    sys.modules.update(SHIMS)
    try:
        new = []
        for name in GDB_MODULES:
            old = sys.modules[name]
            if name not in _CODE:
                with open(old.__file__) as f:
                    _CODE[name] = compile(f.read(), old.__file__, "exec")
            mod = types.ModuleType(name)
            mod.__file__ = old.__file__
            mod.__package__ = "ppci.binutils.dbg.gdb"
            sys.modules[name] = mod
            setattr(pkg, name.rsplit(".", 1)[1], mod)
            exec(_CODE[name], mod.__dict__)
            new.append(mod)
    finally:
        for k, v in saved.items():
            if v is None:
                sys.modules.pop(k, None)
            else:
                sys.modules[k] = v
    rsp_mod, transport_mod, client_mod = new

SPECIAL = ["$", "#", "}", "*", "+", "-", "'", "\x03", "\x04", "\n", "]"]
PLAIN = list("0123456789abcdefOKSTmg:;,. ")
NOISE = b"xyz09 *}\x00\x7f\xff\xa5"
HIGH = [0x80, 0xC1, 0xE9, 0xFF]

FAULT_KINDS = [
    "c2p_corrupt_body", "c2p_corrupt_csum", "c2p_ack_lost",
    "spurious_nack", "nack_storm", "ack_lost", "ack_noise", "noise",
    "p2c_corrupt_body", "p2c_corrupt_high", "p2c_corrupt_csum", "slow_ack",
    "close",
]


BENIGN_FOR_DRIVER = {"c2p_corrupt_body", "c2p_corrupt_csum", "spurious_nack",
                     "nack_storm", "noise", "p2c_corrupt_body",
                     "p2c_corrupt_high", "p2c_corrupt_csum", "slow_ack"}


def gen_payload(ch, maxlen=12, long_ok=False):
    if long_ok and ch.chance(1, 3, "longpayload"):
        # bursts well beyond any plausible buffer size (memory dumps)
        n = ch.pick([40, 130, 252, 260, 300, 508, 600, 1020], "longlen")
        if n in (252, 508, 1020):
            # frame length ($ + payload + # + 2) is exactly a power of two:
            # plain characters only, so that escaping adds nothing
            return "".join(ch.pick(PLAIN, "exactch") for _ in range(n))
    else:
        n = ch.weighted([2, 4, 4, 3, 3, 2, 2, 1, 1, 1, 1, 1, 1][: maxlen + 1],
                        "plen")
    out = []
    for _ in range(n):
        if ch.chance(3, 8, "special"):
            out.append(ch.pick(SPECIAL, "sch"))
        elif ch.chance(1, 4, "anyascii"):
            out.append(chr(ch.draw(128, "ascii")))
        else:
            out.append(ch.pick(PLAIN, "pch"))
    return "".join(out)


def gen_config(ch):
    cfg = {}
    cfg["fault_mode"] = ch.weighted([1, 1], "faultmode")
    cfg["enabled"] = []
    if cfg["fault_mode"]:
        for k in FAULT_KINDS:
            num = 1 if k == "close" else 3
            if ch.chance(num, 8, "en:" + k):
                cfg["enabled"].append(k)
    cfg["latency_us"] = ch.pick([0, 1000, 20000], "lat")
    cfg["jitter_us"] = ch.pick([0, 5000], "jit")
    cfg["cut_num"] = ch.pick([0, 1, 4], "cut_num")
    cfg["horizon_us"] = ch.pick([0, 1000], "horizon")
    cfg["weighted_sched"] = ch.weighted([1, 1], "wsched")
    cfg["line_preempt"] = bool(ch.chance(1, 8, "linepreempt"))
    cfg["ack_delay_us"] = ch.pick([0, 2000, 50000], "ackdelay")
    cfg["long_payloads"] = bool(ch.chance(1, 24, "longrun"))
    lp = cfg["long_payloads"]
    # marathon: several hundred tiny packets in one session (counters that
    # wrap, caches that evict, buffers that are reused)
    cfg["marathon"] = bool(ch.chance(1, 60, "marathon"))
    cfg["stall_phase"] = ch.pick([0, 0, 0, 300_000, 1_200_000, 3_000_000],
                                 "stallphase")
    ncallers = 1 + ch.weighted([4, 3, 1], "ncallers")
    cfg["callers"] = []
    for _ in range(ncallers):
        nops = 1 + ch.weighted([3, 3, 2, 1], "nops")
        ops = []
        for _ in range(nops):
            retries = 1 + ch.weighted([1, 2, 2, 1, 1, 1, 1, 1, 1, 3], "retries")
            gap = ch.pick([0, 0, 3000, 700000], "gap")
            ops.append((gen_payload(ch, long_ok=lp), retries, gap))
        cfg["callers"].append(ops)
    npeer = ch.weighted([2, 3, 3, 2, 1], "npeer")
    cfg["peer_packets"] = [(ch.pick([0, 500, 30000, 400000, 1500000], "pt"),
                            gen_payload(ch, long_ok=lp)) for _ in range(npeer)]
    if cfg["marathon"]:
        n = 258 + ch.draw(40, "marathonlen")
        small = ["", "0", "OK", "a1", "}", "$", "g", "m 0,1"]
        cfg["callers"] = [[(ch.pick(small, "mp"), 3, 0) for _ in range(n)]]
        cfg["peer_packets"] = [(k * 2000, ch.pick(small, "mq"))
                               for k in range(n)]
        cfg["enabled"] = [k for k in cfg["enabled"]
                          if k in ("spurious_nack", "noise",
                                   "p2c_corrupt_body", "c2p_corrupt_body")]
    if lp and ch.chance(1, 6, "hugepayload"):
        # beyond any plausible transmit buffer
        cfg["callers"][0].append(
            ("".join(ch.pick(PLAIN, "hugech") for _ in range(64)) * 70,
             3, 0))
    # topology: 0 = RspHandler against the reference peer (A2),
    #           1 = GdbDebugDriver on top of it against a stub server (B)
    cfg["topology"] = ch.weighted([3, 1], "topology")
    if cfg["topology"] == 1:
        # Faults that orphan or duplicate a *reply* (command accepted but its
        # ack lost; client's ack of a reply lost; close) are left to topology
        # 0: RSP has no sequence numbers, so what the driver does with a
        # stale reply is outside the statement.
        cfg["enabled"] = [k for k in cfg["enabled"] if k in BENIGN_FOR_DRIVER]
        cfg["peer_packets"] = []  # well behaved stub: only replies
        cfg["slow_replies"] = bool(ch.chance(1, 3, "slowreplies"))
        cfg["upper_hex"] = bool(ch.chance(1, 4, "upperhex"))
        cfg["slow_subscriber"] = ch.pick([0, 0, 50_000, 400_000], "slowsub")
        # a halted stub that announces itself with a stop reply as soon as
        # the connection is up
        cfg["greeting"] = ch.pick([None, None, None, "S05", "T0500:44332211;"],
                                  "greeting")
        cfg["callers"] = []
        nb = 1 + ch.weighted([3, 2], "b_ncallers")
        cfg["bops"] = []
        cfg["stepmix"] = bool(nb == 2 and ch.chance(1, 3, "stepmix"))
        if cfg["stepmix"]:
            # one caller single-steps while the other reads: stop replies
            # arrive while commands are outstanding.  All replies have the
            # shape of a register dump, so whichever waiting command takes
            # which reply (not part of the statement) nothing fails to parse.
            stops = ["S05", "S02", "T0500:44332211;", "T05thread:01;"]
            cfg["bops"].append([("step", ch.pick(stops, "sm_stop"))
                                for _ in range(1 + ch.draw(3, "sm_nsteps"))])
            cfg["bops"].append([ch.pick([("read_mem", 0x1000, 12),
                                         ("get_registers",),
                                         ("read_mem", 0x23, 12)], "sm_op")
                                for _ in range(1 + ch.draw(4, "sm_nops"))])
            nb = 0
        for c in range(nb):
            ops = []
            for _ in range(1 + ch.draw(4, "b_nops")):
                kinds = ["read_mem", "write_mem", "set_breakpoint",
                         "clear_breakpoint", "get_registers", "get_pc"]
                if nb == 1:
                    kinds += ["step", "step", "run2"]
                k = ch.pick(kinds, "b_kind")
                addr = ch.pick([0, 0x64, 0x1000, 0x2A, 0x23, 0x7D24],
                               "b_addr")
                if k == "read_mem":
                    size = 1 + ch.draw(4, "b_size")
                    if lp and ch.chance(1, 2, "b_bigread"):
                        size = ch.pick([70, 126, 128, 300, 510, 600],
                                       "b_bigsize")
                    ops.append((k, addr, size))
                elif k == "write_mem":
                    n = 1 + ch.draw(3, "b_wlen")
                    ops.append((k, addr, [ch.pick([0x23, 0x24, 0x7D, 0x2A, 1,
                                                   0xFF, 0x30], "b_byte")
                                          for _ in range(n)]))
                elif k in ("set_breakpoint", "clear_breakpoint"):
                    ops.append((k, addr))
                elif k == "run2":
                    # `run()` twice in a row (allowed, only warned about): two
                    # 'c' commands, two stop replies that may queue up
                    ops.append((k, ch.pick(["S05", "S02"], "b_run2a"),
                                ch.pick(["S05", "T0500:44332211;"],
                                        "b_run2b")))
                elif k == "step":
                    ops.append((k, ch.pick(["S05", "S02", "S0b", "T0a00:44332211;",
                                            "T0505:01020304;",
                                            "T0500:44332211;",
                                            "T05thread:01;"], "b_stop")))
                else:
                    ops.append((k,))
            cfg["bops"].append(ops)
        # a stub without breakpoint support: 'Z' / 'z' get the empty reply
        # the GDB manual prescribes for unsupported commands - still one
        # incoming message that must reach the waiting command exactly once
        cfg["no_z"] = bool(ch.chance(1, 4, "no_z"))
    return cfg


class Faults:
    """Decides, from the run's Choices, whether a fault fires at an
    opportunity; counts what actually fired."""

    def __init__(self, ch, cfg):
        self.ch = ch
        self.enabled = set(cfg["enabled"])
        self.off = not cfg["fault_mode"]
        self.fired = {}

    def hit(self, kind, num=1, den=6):
        if self.off or kind not in self.enabled:
            return False
        if self.ch.chance(num, den, "f:" + kind):
            self.fired[kind] = self.fired.get(kind, 0) + 1
            return True
        return False


def corrupt_frame(ch, frame, body_kind):
    """Corrupt exactly one byte of a frame without creating or destroying a
    framing byte.  body_kind: 'body' | 'high' | 'csum'."""
    frame = bytearray(frame)
    hash_pos = len(frame) - 3
    body_len = hash_pos - 1
    if body_kind in ("body", "high") and body_len > 0:
        i = 1 + ch.draw(body_len, "cpos")
        old = frame[i]
        if body_kind == "high":
            new = ch.pick(HIGH, "chigh")
        else:
            cand = [b for b in b"axz0+-}*'\x03 ]" if b != old]
            new = ch.pick(cand, "cval")
        frame[i] = new
    else:
        i = hash_pos + 1 + ch.draw(2, "cdig")
        old = chr(frame[i]).lower()
        cand = [c for c in "0123456789abcdefgz" if c != old]
        frame[i] = ord(ch.pick(cand, "cdigval"))
    return bytes(frame)


class C2PFilter:
    """Fault filter on the client -> peer direction: follows the framing with
    the reference decoder so that corruption never touches '$' / '#'; at most
    one corrupted byte per frame; client acks may be lost."""

    def __init__(self, world):
        self.w = world
        self.dec = rsp_ref.Decoder()
        self.plan = None  # (kind, position) for the frame in progress
        self.body_i = 0

    def __call__(self, data):
        f = self.w.faults
        ch = self.w.ch
        out = bytearray()
        for b in data:
            state = self.dec.state
            if state == 0:
                if b == 0x24:
                    self.plan = None
                    self.body_i = 0
                    if f.hit("c2p_corrupt_body", 1, 5):
                        self.plan = ("body", ch.draw(8, "c2p_pos"))
                    elif f.hit("c2p_corrupt_csum", 1, 6):
                        self.plan = ("csum", ch.draw(2, "c2p_dig"))
                elif b in (0x2B, 0x2D):
                    if f.hit("c2p_ack_lost", 1, 5):
                        self.dec.feed(0x78)
                        if ch.chance(1, 2, "c2p_ack_noise"):
                            out.append(0x78)  # becomes line noise 'x'
                        continue
            elif state == 1 and b != 0x23:
                if self.plan and self.plan[0] == "body" and \
                        self.body_i == self.plan[1]:
                    cand = [c for c in b"axz0+-}*'\x03\xe9" if c != b]
                    b2 = ch.pick(cand, "c2p_val")
                    self.plan = None
                    self.dec.feed(b2)
                    out.append(b2)
                    self.body_i += 1
                    continue
                self.body_i += 1
            elif state == 1 and b == 0x23:
                if self.plan and self.plan[0] == "body":
                    # body shorter than the planned position: hit the checksum
                    self.plan = ("csum", self.plan[1] % 2)
            elif state in (2, 3):
                if self.plan and self.plan[0] == "csum" and \
                        self.plan[1] == state - 2:
                    old = chr(b).lower()
                    cand = [c for c in "0123456789abcdefgz" if c != old]
                    b2 = ord(ch.pick(cand, "c2p_digval"))
                    self.plan = None
                    self.dec.feed(b2)
                    out.append(b2)
                    continue
            self.dec.feed(b)
            out.append(b)
        return bytes(out)


class RefPeer:
    """The remote end: reference RSP end-point, event driven."""

    ACK_TIMEOUT_US = 1_000_000
    BUDGET = 5

    def __init__(self, world):
        self.w = world
        self.sim = world.sim
        self.dec = rsp_ref.Decoder()
        self.rx_packets = []
        self.accepted = []
        self.to_send = []
        self.outstanding = None
        self.token = 0
        self.frames_sent = []
        self.sent_order = []
        self.scheduled = 0
        self.storm_left = 0
        self.closed = False
        self.gave_up = 0
        self.reply_fn = None

    # -- receive side
    def on_bytes(self, chunk):
        if self.closed:
            return
        for b in chunk:
            it = self.dec.feed(b)
            if it is not None:
                self.handle(it)
        f = self.w.faults
        if not self.dec.in_packet and f.hit("close", 1, 12):
            self.close()

    def handle(self, it):
        w = self.w
        f = w.faults
        ch = w.ch
        if it[0] == "pkt":
            _, good, payload, raw = it
            resp = "+" if good else "-"
            accepted = good
            if good:
                if self.storm_left > 0 and not f.off:
                    self.storm_left -= 1
                    resp, accepted = "-", False
                    f.fired["nack_storm_nacks"] = \
                        f.fired.get("nack_storm_nacks", 0) + 1
                elif f.hit("nack_storm", 1, 8):
                    self.storm_left = ch.draw(12, "stormlen")
                    resp, accepted = "-", False
                elif f.hit("spurious_nack", 1, 5):
                    resp, accepted = "-", False
            wire_b = resp.encode()
            seen = resp
            if f.hit("ack_lost", 1, 7):
                wire_b, seen = None, "lost"
            elif f.hit("ack_noise", 1, 7):
                wire_b, seen = b"x", "lost"
            delay = ch.draw(w.cfg["ack_delay_us"] + 1, "ackdelay") \
                if w.cfg["ack_delay_us"] else 0
            if f.hit("slow_ack", 1, 6):
                # round trip stays below the 0.5 s ack timeout
                delay += 100_000 + ch.draw(290_000, "slowack")
            # "resp" is what actually goes on the wire towards the client:
            # it stays "lost" until the ack byte is really emitted (the peer
            # may close the connection first)
            rec = {"good": good, "payload": payload, "raw": raw,
                   "resp": "lost", "accepted": accepted}
            self.rx_packets.append(rec)
            self.sim.log("peer", "rx_pkt", (good, raw, seen))
            if accepted:
                self.accepted.append(payload)
            def send_ack(rec=rec, wire_b=wire_b, seen=seen,
                         accepted=accepted, payload=payload):
                # a conformant stub acknowledges first and answers afterwards
                if not self.closed and wire_b is not None:
                    rec["resp"] = seen
                    self.emit(wire_b)
                if accepted and self.reply_fn is not None and \
                        not self.closed:
                    self.reply_fn(payload)

            self.sim.after(delay, send_ack, "peer.ack")
        elif it[0] == "ack":
            if self.outstanding is not None:
                if it[1] == "+":
                    self.sim.log("peer", "acked", self.outstanding["payload"])
                    self.outstanding = None
                    self.pump()
                else:
                    self.retransmit("nack")

    def emit(self, data):
        if not self.closed:
            self.w.p2c.write(data)

    # -- send side
    def enqueue(self, payload, stall_us=0):
        self.to_send.append((payload, stall_us) if stall_us else payload)
        self.pump()

    def schedule(self, t_us, payload):
        self.scheduled += 1

        def go():
            self.scheduled -= 1
            self.enqueue(payload)

        self.sim.at(t_us, go, "peer.enqueue")

    def pump(self):
        if self.closed or self.outstanding is not None or not self.to_send:
            return
        payload = self.to_send.pop(0)
        stall = 0
        if isinstance(payload, tuple):
            payload, stall = payload
        self.sent_order.append(payload)
        self.outstanding = {"payload": payload, "tries": 0,
                            "stall_us": stall}
        self.send_frame()

    def send_frame(self):
        w = self.w
        f = w.faults
        ch = w.ch
        o = self.outstanding
        o["tries"] += 1
        self.token += 1
        token = self.token
        frame = rsp_ref.encode(o["payload"], upper=bool(ch.draw(2, "upper")))
        if f.hit("noise", 1, 4):
            n = 1 + ch.draw(3, "noiselen")
            junk = bytes(ch.pick(list(NOISE), "noiseb") for _ in range(n))
            self.emit(junk)
        if f.hit("p2c_corrupt_high", 1, 5):
            frame = corrupt_frame(ch, frame, "high")
        elif f.hit("p2c_corrupt_body", 1, 5):
            frame = corrupt_frame(ch, frame, "body")
        elif f.hit("p2c_corrupt_csum", 1, 6):
            frame = corrupt_frame(ch, frame, "csum")
        self.frames_sent.append(frame)
        self.sim.log("peer", "tx_frame", frame)
        stall = o.get("stall_us", 0)
        if stall and not self.closed:
            # the link stalls in the middle of this packet
            self.w.p2c.write(frame, stall_at=1 + ch.draw(len(frame) - 1,
                                                         "stallat"),
                             stall_us=stall)
        else:
            self.emit(frame)

        def timeout():
            if self.outstanding is o and self.token == token:
                self.retransmit("timeout")

        self.sim.after(self.ACK_TIMEOUT_US + stall, timeout,
                       "peer.acktimeout")

    def retransmit(self, why):
        o = self.outstanding
        if o["tries"] >= self.BUDGET:
            self.gave_up += 1
            self.sim.log("peer", "gave_up", o["payload"])
            self.outstanding = None
            self.pump()
            return
        self.sim.log("peer", "retransmit", why)
        self.send_frame()

    def idle(self):
        return self.closed or (self.outstanding is None and not self.to_send
                               and self.scheduled == 0)

    def close(self):
        if not self.closed:
            self.closed = True
            self.sim.log("peer", "close")
            self.w.p2c.close()


class World:
    def __init__(self, ch, cfg):
        self.ch = ch
        self.cfg = cfg
        self.sim = Sim(ch, step_cap=90000 if cfg.get("marathon") or
                       cfg.get("long_payloads") else 20000,
                       time_cap_us=600_000_000,
                       horizon_us=cfg["horizon_us"])
        self.sim.net = self
        self.sim.weighted = bool(cfg["weighted_sched"])
        self.faults = Faults(ch, cfg)
        self.peer = RefPeer(self)
        self.c2p = None
        self.p2c = None
        self.msgs = []
        self.calls = []  # dict(actor,k,payload,retries,outcome,start,end)
        self.handler = None
        self.transport = None
        self.main_done = False
        self.probe = None
        self.drv = None
        self.bcalls = []
        self.stops_processed = []
        self.replies_taken = []
        self.pending_stops = []
        self.stub_writes = []
        self.empty_replies = 0
        self.stub_mem = {}
        self.leftover = []
        self.leftover_before_probe = None
        self.forced_stop = 0

    # sim.net interface
    def connect(self, sock, addr):
        cfg = self.cfg
        self.c2p = wire.Link(self.sim, "c2p", cfg["latency_us"],
                             cfg["jitter_us"], cfg["cut_num"],
                             filter=C2PFilter(self),
                             on_deliver=self.peer.on_bytes)
        self.p2c = wire.Link(self.sim, "p2c", cfg["latency_us"],
                             cfg["jitter_us"], cfg["cut_num"])
        if cfg.get("greeting"):
            g = cfg["greeting"].encode()
            self.sim.after(self.ch.draw(3000, "greetdelay"),
                           lambda: self.peer.enqueue(g), "stub.greeting")
        return self.p2c, self.c2p

    def on_message(self, msg):
        self.sim.log(self.sim.name(), "on_message", msg)
        self.msgs.append(msg)
        # the consumer's callback is a place where other threads get to run
        self.sim.yield_("on_message")

    def install_recorder(self, handler):
        """Record every sendpkt call (invoke / return, outcome) - also the
        ones the driver makes internally."""
        orig = handler.sendpkt
        w = self

        def sendpkt(data, retries=None):
            sim = w.sim
            rec = {"actor": sim.name(), "payload": data, "retries": retries,
                   "start": sim.seq + 1, "outcome": None, "end": None,
                   "phase2": w.faults.off}
            w.calls.append(rec)
            sim.log(sim.name(), "call", (data, retries))
            try:
                if retries is None:
                    orig(data)
                else:
                    orig(data, retries=retries)
                rec["outcome"] = "ok"
            except sched.Abort:
                raise
            except BaseException as e:  # behaviour of the code under test
                rec["outcome"] = type(e).__name__
                raise
            finally:
                sim.log(sim.name(), "ret", rec["outcome"])
                rec["end"] = sim.seq

        handler.sendpkt = sendpkt

    def do_call(self, payload, retries):
        try:
            self.handler.sendpkt(payload, retries=retries)
        except sched.Abort:
            raise
        except BaseException:  # recorded by the recorder
            pass

    def caller(self, ops):
        sim = self.sim
        for payload, retries, gap in ops:
            sim.yield_("caller")
            self.do_call(payload, retries)
            if gap:
                sim.sleep(gap)

    # ------------------------------------------------ topology B (driver)
    def stub_reply(self, payload):
        """Well behaved gdb stub: exactly one reply per command; a stop
        reply only after 's' / 'c'."""
        cmd = payload.decode("latin-1")
        peer = self.peer
        if self.cfg.get("slow_replies") and cmd not in ("s", "c") and \
                not getattr(self, "_deferred", False) and \
                self.ch.chance(1, 3, "slowreply"):
            # a slow target: the reply comes late, but well within the
            # driver's 3 s reply timeout
            delay = 200_000 + self.ch.draw(2_000_000, "replydelay")

            def later(payload=payload):
                self._deferred = True
                try:
                    self.stub_reply(payload)
                finally:
                    self._deferred = False

            self.sim.after(delay, later, "stub.slowreply")
            return
        if cmd.startswith("m"):
            a, n = cmd[1:].strip().split(",")
            a, n = int(a, 16), int(n, 16)
            text = bytes(stub_mem_read(self.stub_mem, a, n)).hex()
            if self.cfg.get("upper_hex"):
                text = text.upper()
            peer.enqueue(text.encode())
        elif cmd.startswith("M"):
            # M addr,len:hexdata - the stub's memory is stateful
            head, data = cmd[1:].split(":", 1)
            a = int(head.split(",")[0].strip(), 16)
            for i, b in enumerate(bytes.fromhex(data)):
                self.stub_mem[a + i] = b
            self.stub_writes.append(cmd)
            peer.enqueue(b"OK")
        elif cmd.startswith(("Z", "z", "P")):
            self.stub_writes.append(cmd)
            if self.cfg.get("no_z") and cmd[0] in "Zz":
                self.empty_replies += 1
                peer.enqueue(b"")
            else:
                peer.enqueue(b"OK")
        elif cmd == "g":
            peer.enqueue(REGS_HEX.encode())
        elif cmd.startswith("p"):
            idx = int(cmd[1:].strip(), 16)
            peer.enqueue(REGS_HEX[8 * idx: 8 * idx + 8].encode())
        elif cmd in ("s", "c"):
            stop = self.pending_stops.pop(0) if self.pending_stops else "S05"
            delay = 1000 + self.ch.draw(200_000, "stopdelay")
            self.sim.after(delay, lambda: peer.enqueue(stop.encode()),
                           "stub.stop")
        else:
            peer.enqueue(b"")

    def bcaller(self, ops):
        sim = self.sim
        drv = self.drv
        for op in ops:
            sim.yield_("bcaller")
            rec = {"actor": sim.name(), "op": op, "result": None,
                   "exc": None, "phase2": self.faults.off}
            self.bcalls.append(rec)
            sim.log(sim.name(), "bop", op)
            try:
                k = op[0]
                if k == "read_mem":
                    rec["result"] = drv.read_mem(op[1], op[2]).hex()
                elif k == "write_mem":
                    drv.write_mem(op[1], bytes(op[2]))
                elif k == "set_breakpoint":
                    drv.set_breakpoint(op[1])
                elif k == "clear_breakpoint":
                    drv.clear_breakpoint(op[1])
                elif k == "get_registers":
                    regs = drv.get_registers(ARCH.gdb_registers)
                    rec["result"] = [regs.get(r) for r in ARCH.gdb_registers]
                elif k == "get_pc":
                    rec["result"] = drv.get_pc()
                elif k == "run2":
                    self.pending_stops += [op[1], op[2]]
                    before = len(self.stops_processed)
                    drv.run()
                    drv.run()
                    ok = sim.block(
                        lambda: len(self.stops_processed) >= before + 2
                        and drv.status == STOPPED, 30_000_000,
                        "bcaller.wait_stops")
                    rec["result"] = "stopped" if ok else "still-running"
                    if not ok:
                        self.forced_stop += 1
                        drv.status = STOPPED
                elif k == "step":
                    self.pending_stops.append(op[1])
                    drv.step()
                    # the next command needs a stopped target
                    ok = sim.block(lambda: drv.status == STOPPED,
                                   30_000_000, "bcaller.wait_stop")
                    rec["result"] = "stopped" if ok else "still-running"
                    if not ok:
                        # the stop reply overtook step()'s own bookkeeping
                        # (state machine of the driver, not part of the
                        # statement): carry on as the unit tests do
                        self.forced_stop += 1
                        drv.status = STOPPED
            except sched.Abort:
                raise
            except BaseException as e:  # behaviour of the code under test
                rec["exc"] = f"{type(e).__name__}: {e}"
            sim.log(sim.name(), "bret", (rec["result"], rec["exc"]))

    def main_b(self):
        sim = self.sim
        cfg = self.cfg
        self.transport = transport_mod.TCP(1234)
        drv = self.drv = client_mod.GdbDebugDriver(ARCH, self.transport)
        self.handler = drv._rsp
        self.install_recorder(self.handler)
        orig_on = drv._rsp.on_message
        w = self

        def on_message(m):
            w.on_message(m)
            orig_on(m)

        drv._rsp.on_message = on_message
        orig_psp = drv._process_stop_status

        def psp(pkt):
            sim.log(sim.name(), "stop_processed", pkt)
            w.stops_processed.append(pkt)
            return orig_psp(pkt)

        drv._process_stop_status = psp
        orig_recv = drv._recv_message

        def recv(timeout=3):
            m = orig_recv(timeout=timeout)
            sim.log(sim.name(), "reply_taken", m)
            w.replies_taken.append(m)
            return m

        drv._recv_message = recv
        if cfg.get("slow_subscriber"):
            # user code hooked on the stop event that takes its time (it runs
            # in the driver's stop thread)
            def on_stop():
                sim.sleep(cfg["slow_subscriber"])

            drv.events.on_stop += on_stop
        self.peer.reply_fn = self.stub_reply
        drv.connect()
        if cfg.get("greeting"):
            # let the driver digest the greeting (it queries the registers)
            # before commands are issued: reply pairing under concurrent
            # commands is not part of the statement
            sim.block(lambda: drv.status == STOPPED, 10_000_000,
                      "main.wait_greeting")
            sim.sleep(100_000)
        drv.status = STOPPED
        threads = [SimThread(target=self.bcaller, args=(ops,),
                             name=f"caller{i}")
                   for i, ops in enumerate(cfg["bops"])]
        for t in threads:
            t.start()
        for t in threads:
            t.join()
        sim.block(self.peer.idle, 60_000_000, "main.wait_peer")
        sim.sleep(4_000_000)
        self.faults.off = True
        sim.log("main", "faults_off")
        self.leftover_before_probe = list(drv._msg_queue.items) or \
            bool(died_threads(sim))
        if not self.peer.closed and drv.status == STOPPED:
            self.bcaller([("read_mem", 0x7D24, 4)])
            sim.block(self.peer.idle, 60_000_000, "main.wait_peer2")
        sim.sleep(1_000_000)
        self.leftover = list(drv._msg_queue.items)
        drv.disconnect()
        self.main_done = True
        sim.log("main", "done")

    def main(self):
        sim = self.sim
        cfg = self.cfg
        if cfg["topology"] == 1:
            return self.main_b()
        self.transport = transport_mod.TCP(1234)
        self.handler = rsp_mod.RspHandler(self.transport)
        self.install_recorder(self.handler)
        self.handler.on_message = self.on_message
        self.transport.connect()
        for t, payload in cfg["peer_packets"]:
            self.peer.schedule(t, payload.encode("latin-1"))
        threads = [SimThread(target=self.caller, args=(ops,),
                             name=f"caller{i}")
                   for i, ops in enumerate(cfg["callers"])]
        for t in threads:
            t.start()
        for t in threads:
            t.join()
        sim.block(self.peer.idle, 60_000_000, "main.wait_peer")
        # let in-flight acks drain, then stop all faults
        sim.sleep(1_500_000)
        self.faults.off = True
        sim.log("main", "faults_off")
        if not self.peer.closed:
            self.peer.enqueue(b"final}]")
            self.do_call("probe$", None)
            sim.block(self.peer.idle, 60_000_000, "main.wait_peer2")
            if cfg.get("stall_phase"):
                # phase 3: nothing else in flight; the link stalls for a
                # while in the middle of one more incoming packet
                sim.sleep(600_000)
                self.peer.enqueue(b"tail", stall_us=cfg["stall_phase"])
                sim.block(self.peer.idle, 60_000_000, "main.wait_peer3")
        sim.sleep(1_000_000)
        self.transport.disconnect()
        self.main_done = True
        sim.log("main", "done")


def died_threads(sim):
    return [(e[2], e[4]) for e in sim.history if e[3] == "thread_died"]


def judge(w, verdict):
    """Oracles over the recorded history -> list of (oracle_id, detail)."""
    sim = w.sim
    peer = w.peer
    cfg = w.cfg
    viol = []
    probes = {}

    def probe(name, n=1):
        probes[name] = probes.get(name, 0) + n

    died = [(e[2], e[4]) for e in sim.history if e[3] == "thread_died"]
    closed = peer.closed
    complete = verdict == "quiescent" and w.main_done

    # ---------------- O5 liveness / no hang
    if verdict == "time_cap" or (verdict == "quiescent" and not w.main_done):
        pend = [f"{t.name}:{t.op}" for t in sim.pending()]
        viol.append(("O5-hang", f"run did not finish ({verdict}); pending "
                                f"{pend}; died {died}"))

    # ---------------- O1 / O2: incoming direction, stream based
    delivered = bytes(w.p2c.delivered) if w.p2c is not None else b""
    items = rsp_ref.parse_stream(delivered)
    exp_msgs = []
    exp_acks = []
    for it in items:
        if it[0] == "pkt":
            if it[1]:
                exp_msgs.append(it[2].decode("latin-1"))
                exp_acks.append("+")
                probe("incoming_good")
                if it[3].count(b"}"):
                    probe("incoming_escaped")
            else:
                exp_acks.append("-")
                probe("incoming_bad")
    got = list(w.msgs)
    if closed:
        # relaxed, only after the injected close: what was delivered must be
        # right and in order, but a packet whose acknowledgement could not be
        # written any more may be missing
        if got != exp_msgs[: len(got)]:
            viol.append(("O1-payload", f"on_message got {got!r}, stream "
                                       f"carries {exp_msgs!r} (closed)"))
    elif complete:
        # every delivered byte has been read (settle time elapsed)
        if got != exp_msgs:
            kind = "O1-payload"
            if len(got) < len(exp_msgs) and got == exp_msgs[: len(got)]:
                kind = "O1-lost"
            elif len(got) > len(exp_msgs):
                kind = "O1-extra"
            viol.append((kind, f"on_message got {got!r}, byte stream "
                               f"delivered to the client carries "
                               f"{exp_msgs!r}; died={died}"))
    elif got != exp_msgs[: len(got)]:
        viol.append(("O1-payload", f"on_message got {got!r}, stream carries "
                                   f"{exp_msgs!r}"))
    sent = bytes(w.c2p.sent) if w.c2p is not None else b""
    sent_items = rsp_ref.parse_stream(sent)
    got_acks = [it[1] for it in sent_items if it[0] == "ack"]
    if complete and not closed:
        if got_acks != exp_acks:
            viol.append(("O2-ack", f"client answered {''.join(got_acks)!r} "
                                   f"to packets whose checksums call for "
                                   f"{''.join(exp_acks)!r}; died={died}"))
    elif got_acks != exp_acks[: len(got_acks)]:
        viol.append(("O2-ack", f"client answered {''.join(got_acks)!r}, "
                               f"expected prefix of {''.join(exp_acks)!r}"))

    # ---------------- O3 / O4: outgoing direction, per call
    # attribute every sock.send of a caller thread to its call
    frame_idx = 0
    per_call = {id(c): [] for c in w.calls}
    active = {}
    ci = {}
    for seq, now, actor, ev, data in sim.history:
        if ev == "call":
            n = ci.get(actor, 0)
            mine = [c for c in w.calls if c["actor"] == actor]
            active[actor] = mine[n]
            ci[actor] = n + 1
        elif ev == "ret":
            active.pop(actor, None)
        elif ev == "sock.send":
            nframes = data.count(b"$")
            c = active.get(actor)
            if c is not None:
                per_call[id(c)].append((frame_idx, data))
            frame_idx += nframes
    for c in w.calls:
        sends = per_call[id(c)]
        blob = b"".join(d for _, d in sends)
        its = rsp_ref.parse_stream(blob)
        want = c["payload"].encode("latin-1")
        bad_enc = [it for it in its
                   if not (it[0] == "pkt" and it[1] and it[2] == want)]
        if bad_enc or (not its and c["outcome"] == "ok"):
            viol.append(("O3-encoding",
                         f"sendpkt({c['payload']!r}) put {blob!r} on the "
                         f"wire: not (only) well-formed packets carrying the "
                         f"payload"))
            continue
        if any(ch_ in c["payload"] for ch_ in "$#}*"):
            probe("outgoing_escaped")
        k = len(its)
        first = sends[0][0] if sends else None
        resps = []
        accepted_any = False
        for j in range(k):
            gi = first + j
            if gi < len(peer.rx_packets):
                r = peer.rx_packets[gi]
                resps.append(r["resp"])
                accepted_any |= r["accepted"]
            else:
                resps.append(None)
        budget = c["retries"] if c["retries"] is not None else 10
        retrans = k - 1
        out = c["outcome"]
        desc = (f"sendpkt({c['payload']!r}, retries={budget}) -> {out}; "
                f"transmissions={k}, peer responses={resps}")
        if retrans > budget:
            viol.append(("O3-budget", "retransmitted beyond budget: " + desc))
        for j, r in enumerate(resps):
            last = j == k - 1
            if r == "+":
                probe("ack_seen")
                if not last:
                    viol.append(("O3-after-ack",
                                 "retransmitted after '+': " + desc))
                    break
                if out != "ok" and out is not None:
                    viol.append(("O3-ack-ignored",
                                 "acknowledged but failed: " + desc))
            elif r == "-":
                probe("nack_seen")
                if last:
                    if out == "ok":
                        viol.append(("O4-ok-after-nack",
                                     "returned normally after '-': " + desc))
                    elif out is not None and retrans < budget - 1 \
                            and not closed:
                        viol.append(("O3-no-retransmit",
                                     "negative acknowledgement with budget "
                                     "remaining not followed by a "
                                     "retransmission: " + desc))
                else:
                    probe("retransmit_after_nack")
            else:
                probe("ack_lost_seen")
                if last and out == "ok":
                    viol.append(("O4-ok-without-ack",
                                 "returned normally without an "
                                 "acknowledgement: " + desc))
        if out == "ok" and not accepted_any:
            viol.append(("O4-ok-not-accepted",
                         "returned normally but the peer never accepted a "
                         "copy: " + desc))
        if retrans >= budget and out not in ("ok", None):
            probe("budget_exhausted")

    # ---------------- O6: clean run => clean protocol; recovery after faults
    clean = not cfg["fault_mode"]
    if clean and complete:
        probe("clean_run")
        want = sorted(c["payload"].encode("latin-1") for c in w.calls)
        problems = []
        if [c for c in w.calls if c["outcome"] != "ok"]:
            problems.append("calls failed: " + repr(
                [(c["payload"], c["outcome"]) for c in w.calls
                 if c["outcome"] != "ok"]))
        if sorted(peer.accepted) != want:
            problems.append(f"peer accepted {sorted(peer.accepted)!r}, "
                            f"callers sent {want!r}")
        if any(not r["good"] for r in peer.rx_packets):
            problems.append("peer received damaged packets: " + repr(
                [r["raw"] for r in peer.rx_packets if not r["good"]]))
        if len(peer.rx_packets) != len(w.calls):
            problems.append(f"{len(peer.rx_packets)} transmissions for "
                            f"{len(w.calls)} calls")
        exp = [p.decode("latin-1") for p in peer.sent_order]
        if got != exp or (cfg["topology"] == 0 and
                          len(exp) != len(cfg["peer_packets"]) + 1
                          + (1 if cfg.get("stall_phase") else 0)):
            problems.append(f"peer sent {exp!r}, on_message got {got!r}")
        if died:
            problems.append(f"threads died: {died}")
        if problems:
            viol.append(("O6-clean", "fault free run misbehaved: "
                         + "; ".join(problems)))
    if cfg["topology"] == 1:
        viol += judge_driver(w, complete, closed, clean, died, got, probe)
    elif not clean and complete and not closed:
        probe("recovery_checked")
        pc = [c for c in w.calls if c["phase2"]]
        problems = []
        if not pc or pc[-1]["outcome"] != "ok":
            problems.append("sendpkt after faults stopped -> "
                            + repr(pc[-1]["outcome"] if pc else None))
        want_last = "tail" if cfg.get("stall_phase") else "final}]"
        if not got or got[-1] != want_last:
            problems.append(f"packet sent after faults stopped not "
                            f"delivered (last messages {got[-2:]!r})")
        if problems:
            viol.append(("O5-recovery", "; ".join(problems)
                         + f"; died={died}"))
    if closed:
        probe("closed_runs")
    if len(cfg["callers"]) > 1:
        probe("multi_caller")
    return viol, probes


def stub_mem_read(mem, a, n):
    return [mem.get(a + i, (a + i) & 0xFF) for i in range(n)]


def expected_result(op, mem=None):
    k = op[0]
    if k == "read_mem":
        return bytes(stub_mem_read(mem or {}, op[1], op[2])).hex()
    if k == "get_registers":
        return [0x11223344, 0x55667788, 0xAABBCC00]
    if k == "get_pc":
        return 0x11223344
    return None


def judge_driver(w, complete, closed, clean, died, got, probe):
    """Topology B: the debug driver on top of the RSP handler.  Incoming
    messages are routed exactly once: stop replies to the stop handler,
    everything else to a waiting command - nothing lost, nothing twice."""
    from collections import Counter

    viol = []
    probe("driver_runs")
    if w.empty_replies:
        probe("driver_empty_reply", w.empty_replies)
    if w.forced_stop:
        probe("driver_stop_overtook_step", w.forced_stop)
    stops = [m for m in got if m.startswith(("T", "S"))]
    others = [m for m in got if not m.startswith(("T", "S"))]
    taken = Counter(w.replies_taken)
    avail = Counter(others)
    if taken - avail:
        viol.append(("B1-reply-dup", f"replies handed to commands "
                                     f"{w.replies_taken!r} are not among the "
                                     f"delivered messages {others!r}"))
    if w.stops_processed != stops[: len(w.stops_processed)]:
        viol.append(("B1-stop-route", f"stop handler processed "
                                      f"{w.stops_processed!r}, stop replies "
                                      f"delivered {stops!r}"))
    if clean and complete:
        probe("driver_clean_runs")
        problems = []
        if taken + Counter(w.leftover) != avail:
            problems.append(f"replies delivered {others!r}, taken by "
                            f"commands {w.replies_taken!r}, left in queue "
                            f"{w.leftover!r}")
        if w.stops_processed != stops:
            problems.append(f"stop replies delivered {stops!r}, processed "
                            f"{w.stops_processed!r}")
        bad = [(c["op"], c["exc"]) for c in w.bcalls if c["exc"]]
        single = len(w.cfg["bops"]) == 1
        if bad and single:
            problems.append(f"operations failed: {bad!r}")
        if single:
            probe("driver_single_caller")
            mem = {}
            for c in w.bcalls:
                # single caller: the reference memory follows program order
                exp = expected_result(c["op"], mem)
                if c["op"][0] == "write_mem" and not c["exc"]:
                    for i, b in enumerate(c["op"][2]):
                        mem[c["op"][1] + i] = b
                if exp is not None and c["result"] != exp and not c["exc"]:
                    problems.append(f"{c['op']!r} returned {c['result']!r}, "
                                    f"stub answered {exp!r}")
            writes = [c["op"] for c in w.bcalls
                      if c["op"][0] in ("write_mem", "set_breakpoint",
                                        "clear_breakpoint")]
            if len(writes) != len(w.stub_writes):
                problems.append(f"{len(writes)} write commands issued, stub "
                                f"saw {w.stub_writes!r}")
        if problems:
            viol.append(("B2-driver-clean", "fault free driver run "
                         "misbehaved: " + "; ".join(problems)
                         + f"; died={died}"))
    if not clean and complete and not closed:
        last = w.bcalls[-1] if w.bcalls else None
        if last is not None and last["phase2"]:
            probe("driver_recovery_checked")
            if last["result"] != expected_result(last["op"], w.stub_mem) and \
                    len(w.cfg["bops"]) == 1 and not w.leftover_before_probe:
                viol.append(("B3-driver-recovery",
                             f"command after faults stopped: {last['op']!r} "
                             f"-> {last['result']!r} / {last['exc']!r}; "
                             f"died={died}"))
    return viol


def apply_scenario(cfg, idx):
    """Scenario runs pin part of the drawn configuration (the schedule and
    everything else stays seeded)."""
    k = (idx - driver.SCENARIO_BASE) % 3
    if k in (0, 1):
        # two callers hammering the driver with commands, no faults,
        # priority-weighted schedules: the reply-queue races
        cfg.update(topology=1, fault_mode=0, enabled=[], weighted_sched=1,
                   stepmix=False, greeting=None, slow_replies=False,
                   upper_hex=False, slow_subscriber=0, callers=[], no_z=False,
                   peer_packets=[], marathon=False, long_payloads=False,
                   line_preempt=False, stall_phase=0)
        cfg["bops"] = [[("read_mem", 0x64, 2), ("write_mem", 0x64, [1, 2]),
                        ("read_mem", 0x23, 1)],
                       [("set_breakpoint", 0x1000), ("read_mem", 0, 1),
                        ("clear_breakpoint", 0x1000)]]
        if k == 1:
            cfg.update(latency_us=0, jitter_us=0, ack_delay_us=0)
    else:
        # two callers on the bare handler with NACKs: ack attribution
        cfg.update(topology=0, fault_mode=1,
                   enabled=["spurious_nack", "c2p_corrupt_body"],
                   weighted_sched=1, marathon=False, long_payloads=False,
                   stall_phase=0)
        cfg.pop("bops", None)
        cfg["callers"] = [[("a$b", 3, 0), ("", 2, 0)], [("}x", 3, 0)]]
    return cfg


def run_one(ch, render=False):
    cfg = gen_config(ch)
    if getattr(ch, "run_index", 0) >= driver.SCENARIO_BASE:
        cfg = apply_scenario(cfg, ch.run_index)
    w = World(ch, cfg)
    RANDOM_SHIM.reseed(ch.draw(1 << 30, "randomseed"))
    fresh_process_state()
    if cfg["line_preempt"]:
        w.sim.enable_line_preemption(
            [m.__file__ for m in (rsp_mod, transport_mod, client_mod)])
    main = SimThread(target=w.main, name="main")
    w.sim.spawn(main)
    verdict = w.sim.run()
    sim = w.sim
    if verdict == "step_cap":
        viol, probes = [], {"step_cap_hits": 1}
    else:
        viol, probes = judge(w, verdict)
    hist = repr([(e[0], e[1], e[2], e[3], e[4]) for e in sim.history])
    digest = hashlib.sha256((repr(cfg) + hist + verdict).encode()).hexdigest()
    sig = repr(sim.sig)
    res = {
        "viol": viol,
        "digest": digest,
        "sig": sig,
        "nontrivial": len(sim.sig) > 20 and verdict != "step_cap",
        "faults": dict(w.faults.fired),
        "probes": probes,
        "sim_us": sim.now,
        "steps": sim.steps,
    }
    if render:
        res["render"] = {
            "config": cfg,
            "verdict": verdict,
            "history": [f"{e[0]:4d} t={e[1]/1e6:.6f} {e[2]}: {e[3]} {e[4]!r}"
                        for e in sim.history],
            "schedule": [f"{a}:{o}" for a, o in sim.sig][:400],
            "calls": [{k: v for k, v in c.items()} for c in w.calls],
            "driver_ops": w.bcalls,
            "stops_processed": w.stops_processed,
            "replies_taken": w.replies_taken,
            "on_message": w.msgs,
            "faults_fired": dict(w.faults.fired),
        }
    return res


def classify(oracle_id, detail, res):
    return None


class Spec:
    prop = PROP
    tiers = {"quick": 20_000, "thorough": 1_200_000}
    scenario_runs = {"quick": 3_000, "thorough": 60_000}
    selftest_samples = 200
    fresh_samples = 60
    shrink_runs = 1200
    slow_step_s = 0.0005  # wall time per scheduler step above which workers are unpinned
    shrink_wall_s = 90
    run_one = staticmethod(run_one)
    classify = staticmethod(classify)
    rule = ("each run draws 1-3 caller threads x 1-4 sendpkt calls "
            "(payload <= 12 chars over an alphabet rich in $ # } * + - ' and "
            "escaped images, retries 1-10), 0-4 peer-initiated packets, wire "
            "latency/jitter/segmentation, ack delays, an enabled fault subset, "
            "and every scheduling decision; distinct = distinct sequence of "
            "(actor, operation) at the scheduler's decision points; "
            "non-trivial = more than 20 decisions and no step cap")
    assumptions = [
        "threads interact only through Lock, Queue, Thread, socket and "
        "select, all replaced by simulator versions with the stdlib API and "
        "the real queue.Empty/Full exceptions",
        "the remote peer is conformant (one ack per received packet, no "
        "duplicated or >0.5 s late acks, framing bytes never created or "
        "destroyed by corruption, no run-length encoding)",
        "payloads are ASCII str (the API encodes with 'ascii')",
        "the exact retry count is not asserted (giving up after retries-1 or "
        "retries retransmissions is accepted), but an acknowledged packet "
        "must be reported as sent",
    ]
    components_real = [
        "ppci.binutils.dbg.gdb.rsp (RspHandler.sendpkt/send/_process_byte/"
        "decodepkt/rsp_pack/rsp_unpack, decoder)",
        "ppci.binutils.dbg.gdb.transport.TCP (connect, recv_thread, rx_avail, "
        "recv, send, disconnect)"]
    components_stub = [
        "queue.Queue, threading.Lock, threading.Thread -> sim.sched",
        "socket, select -> sim.wire", "remote peer -> sim.rsp_ref + RefPeer"]


def main():
    return driver.main(Spec, os.path.abspath(__file__))


if __name__ == "__main__":
    sys.exit(main())
