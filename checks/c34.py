#!/venv/bin/python
"""C34 - build runner: every requested target and transitive dependency
exactly once, each after all of its dependencies; a dependency loop is
reported iff the part of the graph reachable from the request has a cycle.

Deterministic simulation: the real ppci.build.tasks / recipe / api.construct
code runs under a simulator that owns the one nondeterministic input the
executed order depends on - the iteration order of sets of target names
(decided by the interpreter's hash seed in production, by the run's seed
here) - and injects task failures.  See DESIGN.md, section C34.
"""

import hashlib
import io
import json
import os
import subprocess
import sys

sys.path.insert(0, os.path.dirname(os.path.dirname(os.path.abspath(__file__))))
from sim import report  # noqa: E402

report.ensure_repo_on_path()

from sim import driver  # noqa: E402
from sim.simset import SimSet, SimSetContext, set_context  # noqa: E402

import ppci.build.tasks as tasks  # noqa: E402
import ppci.api as api  # noqa: E402
from ppci.build.recipe import RecipeLoader  # noqa: E402

PROP = "C34"
NAME_POOLS = [
    ["a", "b", "c", "d", "e", "f", "g"],
    ["t1", "t2", "t3", "t4", "t5", "t6", "t7"],
    ["all", "link", "compile", "lib", "rt", "hex", "clean"],
    ["zeta", "Build", "x", "app_2", "m", "obj", "k9"],
    ["1", "2", "10", "a1", "A", "a", "aa"],
]
BIG_POOL = [f"n{i:02d}" for i in range(40)]

# ------------------------------------------------- process model + recording

_HISTORY = []  # (target name, task index) in execution order
_FAULT = [None]  # raise TaskError on the k-th executed task of this call
_CODE = {}


def fresh_process_state():
    """One simulated run models one process life time: the modules the
    property anchors start from their import-time state (module globals,
    default arguments, class attributes, task registry), so a run is a pure
    function of its choices, and state leaking from one project session into
    the next shows up *inside* a run (as a violation) instead of between
    runs (as irreproducibility)."""
    global tasks, RecipeLoader
    import types
    import ppci.build

    new = {}
    for name in ("ppci.build.tasks", "ppci.build.recipe"):
        old = sys.modules[name]
        if name not in _CODE:
            with open(old.__file__) as f:
                _CODE[name] = compile(f.read(), old.__file__, "exec")
        mod = types.ModuleType(name)
        mod.__file__ = old.__file__
        mod.__package__ = "ppci.build"
        sys.modules[name] = mod
        setattr(ppci.build, name.rsplit(".", 1)[1], mod)
        exec(_CODE[name], mod.__dict__)
        new[name] = mod
    tasks = new["ppci.build.tasks"]
    RecipeLoader = new["ppci.build.recipe"].RecipeLoader
    api.TaskRunner = tasks.TaskRunner
    api.TaskError = tasks.TaskError
    api.RecipeLoader = RecipeLoader

    class SimRecordTask(tasks.Task):
        """Recording task registered in task_map (the registry is the
        seam)."""

        def run(self):
            k = len(_HISTORY)
            _HISTORY.append((self.target.name, int(self.arguments["idx"])))
            if _FAULT[0] is not None and k == _FAULT[0]:
                raise tasks.TaskError("injected task failure")

    tasks.register_task(SimRecordTask)

# ---------------------------------------------------------------- workload


GRAPH_TAGS = []  # adjacency masks of the uniformly drawn small graphs


def gen_history(ch):
    """1-3 project sessions in one process, sharing a pool of names."""
    pool = NAME_POOLS[ch.draw(len(NAME_POOLS), "names")]
    nsess = 1 + ch.weighted([12, 3, 1], "nsessions")
    return [gen_project(ch, pool) for _ in range(nsess)]


def gen_project(ch, pool):
    """Draw a project description; all-zero draws give one target, no
    edges, one call requesting it."""
    n = 1 + ch.weighted([1, 3, 5, 6, 5, 3, 2], "ntargets")
    names = ch.perm(pool, "nameperm")[:n] if ch.chance(1, 2, "shufnames") \
        else pool[:n]
    shape = ch.weighted([24, 32, 24, 24, 1], "shape")
    deps = {x: [] for x in names}
    if shape == 4:
        # large sparse graph: a long chain / forest with a few extra edges
        # (recursion depth, quadratic orderings, size dependent cut-offs)
        n = 10 + ch.draw(20, "bign")
        names = ch.perm(BIG_POOL, "bignames")[:n]
        deps = {x: [] for x in names}
        for i in range(1, n):
            par = i - 1 if ch.chance(5, 8, "chain") else ch.draw(i, "bigpar")
            deps[names[par]].append(names[i])
        for _ in range(ch.draw(4, "bigextra")):
            a = ch.draw(n, "bigxa")
            b = ch.draw(n, "bigxb")
            lo, hi = min(a, b), max(a, b)
            if lo != hi and names[hi] not in deps[names[lo]]:
                deps[names[lo]].append(names[hi])
        if ch.chance(1, 4, "bigcycle"):
            a = ch.draw(n, "bigca")
            b = ch.draw(n, "bigcb")
            lo, hi = min(a, b), max(a, b)
            if names[lo] not in deps[names[hi]]:
                deps[names[hi]].append(names[lo])
    elif shape == 0 and n <= 5:
        # uniform over all digraphs on n nodes, self loops included
        mask = ch.draw(1 << (n * n), "adjmask")
        GRAPH_TAGS.append(f"graphs_on_{n}_targets:{mask}")
        for i in range(n):
            for j in range(n):
                if mask >> (i * n + j) & 1:
                    deps[names[i]].append(names[j])
    else:
        dens = 1 + ch.draw(6, "density")  # /8
        order = ch.perm(list(range(n)), "toporder")
        for a in range(n):
            for b in range(a + 1, n):
                if ch.chance(dens, 8, "edge"):
                    # order[a] depends on order[b]: acyclic by construction
                    deps[names[order[a]]].append(names[order[b]])
        if shape >= 2:
            # back edges: turn some paths into cycles (may be unreachable
            # from the request) and some self dependencies
            nback = ch.draw(3, "nback") if shape == 3 else ch.draw(2, "nback")
            for _ in range(nback):
                a = ch.draw(n, "back_a")
                b = ch.draw(n, "back_b")
                if a > b or (a == b and ch.chance(1, 3, "selfdep")):
                    x, y = names[order[a]], names[order[b]]
                    if x not in deps[y]:
                        deps[y].append(x)
    # a target without tasks is invisible in the history, but what it
    # depends on still has to run (and before its dependents)
    if ch.chance(1, 6, "dupdeps"):
        # the same dependency named twice (depends="a,a")
        for x in names:
            if deps[x] and ch.chance(1, 2, "dupdep"):
                deps[x].append(deps[x][ch.draw(len(deps[x]), "dupwhich")])
    ntasks = {x: ch.weighted([1, 10, 4, 2], "ntasks") for x in names} \
        if n <= 8 else {x: ch.weighted([1, 6], "ntasks") for x in names}
    via = ch.weighted([1, 1, 1], "via")  # 0 direct, 1 recipe, 2 construct
    default = None
    if ch.chance(1, 5, "unuseddefault"):
        # a default target that explicit requests must ignore
        default = names[ch.draw(n, "defaultname")]
    ncalls = 1 + ch.weighted([5, 2, 1], "ncalls")
    calls = []
    for _ in range(ncalls):
        k = 1 + ch.weighted([6, 4, 2, 1][: max(1, min(4, n))], "nreq")
        req = [names[ch.draw(n, "req")] for _ in range(k)]
        use_default = False
        if via != 0 and ch.chance(1, 6, "usedefault"):
            # empty request: the project's default target is the request
            if default is None:
                default = req[0]
            use_default = True
            req = [default]
        fault = None
        if ch.chance(1, 8, "fault"):
            fault = ch.draw(2 * n, "faultat")
        new_runner = ch.chance(1, 2, "newrunner")
        calls.append({"request": req, "use_default": use_default,
                      "fault_at": fault, "new_runner": bool(new_runner),
                      "as_tuple": bool(ch.chance(1, 4, "astuple"))})
    return {"names": names, "deps": deps, "ntasks": ntasks, "via": via,
            "default": default, "calls": calls}


def project_xml(desc):
    out = ['<project name="sim"'
           + (f' default="{desc["default"]}"' if desc["default"] else "")
           + ">", '<property name="p" value="v" />']
    for name in desc["names"]:
        d = desc["deps"][name]
        dep = f' depends="{",".join(d)}"' if d else ""
        out.append(f'<target name="{name}"{dep}>')
        for i in range(desc["ntasks"][name]):
            out.append(f'<simrecord idx="{i}" note="${{p}}" />')
        out.append("</target>")
    out.append("</project>")
    return "\n".join(out)


def build_project(desc):
    if desc["via"] == 0:
        proj = tasks.Project("sim")
        proj.default = desc["default"]
        proj.set_property("p", "v")
        for name in desc["names"]:
            t = tasks.Target(name, proj)
            for d in desc["deps"][name]:
                t.add_dependency(d)
            for i in range(desc["ntasks"][name]):
                t.add_task(("simrecord", {"idx": str(i), "note": "${p}"}))
            proj.add_target(t)
        return proj
    return RecipeLoader().load_project(
        __import__("xml.dom.minidom").dom.minidom.parseString(
            project_xml(desc)))


def execute(desc):
    """Run every call of the description against the real runner.  Returns
    per call: (outcome, message, history)."""
    outcomes = []
    proj = None
    runner = None
    for call in desc["calls"]:
        del _HISTORY[:]
        _FAULT[0] = call["fault_at"]
        req = [] if call["use_default"] else list(call["request"])
        if call.get("as_tuple"):
            req = tuple(req)
        try:
            if desc["via"] == 2:
                # the public entry point: parses, builds and runs each time
                api.construct(io.StringIO(project_xml(desc)), req)
            else:
                if proj is None:
                    proj = build_project(desc)
                if runner is None or call["new_runner"]:
                    runner = tasks.TaskRunner()
                runner.run(proj, req)
            out = ("ok", "")
        except RecursionError:
            out = ("exception", "RecursionError")
        except Exception as e:  # behaviour of the code under test
            if type(e).__name__ == "TaskError":
                out = ("taskerror", str(getattr(e, "msg", e)))
            else:
                out = ("exception", f"{type(e).__name__}: {e}")
        finally:
            _FAULT[0] = None
        outcomes.append((out[0], out[1], list(_HISTORY)))
    return outcomes

# ------------------------------------------------------------------ oracle


def closure(deps, request):
    seen, todo = set(), list(request)
    while todo:
        x = todo.pop()
        if x not in seen:
            seen.add(x)
            todo.extend(deps[x])
    return seen


def has_cycle(deps, nodes):
    """Three colour DFS restricted to `nodes` (closed under deps)."""
    colour = {}
    for root in sorted(nodes):
        if root in colour:
            continue
        stack = [(root, iter(deps[root]))]
        colour[root] = 1
        while stack:
            node, it = stack[-1]
            for d in it:
                c = colour.get(d, 0)
                if c == 1:
                    return True
                if c == 0:
                    colour[d] = 1
                    stack.append((d, iter(deps[d])))
                    break
            else:
                colour[node] = 2
                stack.pop()
    return False


def looks_like_loop_report(msg):
    m = msg.lower()
    return any(w in m for w in ("loop", "cycl", "circular"))


def check_call(desc, call, outcome, probes):
    """Oracle for one run() call -> list of (oracle_id, detail)."""
    kind, msg, hist = outcome
    deps = desc["deps"]
    reach = closure(deps, call["request"])
    cyc = has_cycle(deps, reach)
    viol = []
    where = f"request={call['request']} deps={ {k: v for k, v in deps.items() if v} }"
    if cyc:
        probes["cycle_reachable"] += 1
        if not (kind == "taskerror" and looks_like_loop_report(msg)):
            viol.append(("loop-missed",
                         f"reachable cycle not reported: {kind} {msg!r}; "
                         + where))
        return viol
    probes["acyclic"] += 1
    if len(reach) < len(desc["names"]) and \
            has_cycle(deps, set(desc["names"])):
        probes["cycle_unreachable_only"] += 1
    injected = call["fault_at"] is not None and \
        call["fault_at"] < sum(desc["ntasks"][t] for t in reach)
    if kind == "taskerror" and looks_like_loop_report(msg):
        viol.append(("loop-false",
                     f"loop reported but reachable graph is acyclic: {msg!r}; "
                     + where))
        return viol
    # dependency order + at-most-once hold on any prefix
    count = {}
    pos = {}
    for i, (t, k) in enumerate(hist):
        count[(t, k)] = count.get((t, k), 0) + 1
        pos.setdefault(t, []).append(i)
    twice = sorted(x for x, c in count.items() if c > 1)
    if twice:
        viol.append(("twice", f"executed more than once: {twice}; hist={hist}; "
                     + where))
    extra = sorted({t for t, _ in hist} - reach)
    if extra:
        viol.append(("extra", f"executed unrequested targets {extra}; "
                     f"hist={hist}; " + where))
    for t in pos:
        for d in deps.get(t, ()):
            full = desc["ntasks"][d]
            done_before = [i for i in pos.get(d, ()) if i < pos[t][0]]
            if len(done_before) < full:
                viol.append(("order",
                             f"{t} ran before its dependency {d} completed; "
                             f"hist={hist}; " + where))
    if any(deps[t] for t in reach):
        probes["order_matters"] += 1
    if len(reach) >= 4 and sum(len(deps[t]) for t in reach) > len(reach) - 1:
        probes["reconvergent"] += 1
    if injected:
        probes["fault_fired"] += 1
        return viol  # relaxed: prefix conditions only
    if kind != "ok":
        viol.append(("failed", f"run failed without injected fault: "
                               f"{kind} {msg!r}; " + where))
        return viol
    missing = sorted((t, k) for t in reach for k in range(desc["ntasks"][t])
                     if (t, k) not in count)
    if missing:
        viol.append(("missing", f"never executed: {missing}; hist={hist}; "
                     + where))
    return viol

# ---------------------------------------------------------------- one run


def run_history(descs, ctx):
    """Execute the sessions of one simulated process under the SimSet seam
    and judge every call."""
    from collections import Counter

    probes = Counter()
    fresh_process_state()
    tasks.set = SimSet
    set_context(ctx)
    try:
        outcomes = [execute(desc) for desc in descs]
    finally:
        set_context(None)
    viol = []
    for desc, outs in zip(descs, outcomes):
        for call, outcome in zip(desc["calls"], outs):
            viol += check_call(desc, call, outcome, probes)
    if len(descs) > 1:
        probes["multi_project_history"] += 1
    return outcomes, viol, probes


def run_one(ch, render=False):
    mode = ch.weighted([1, 1, 6], "setmode")
    del GRAPH_TAGS[:]
    desc = gen_history(ch)
    ctx = SimSetContext(ch, mode)
    outcomes, viol, probes = run_history(desc, ctx)
    faults = {}
    if probes.get("fault_fired"):
        faults["task_raises_TaskError"] = probes.pop("fault_fired")
    hist_blob = json.dumps([desc, outcomes, ctx.orders], sort_keys=True)
    sig_blob = json.dumps([canonical(desc), ctx.orders], sort_keys=True)
    res = {
        "viol": viol,
        "digest": hashlib.sha256(hist_blob.encode()).hexdigest(),
        "sig": sig_blob,
        "nontrivial": bool(probes.get("order_matters")
                           or probes.get("cycle_reachable")),
        "faults": faults,
        "probes": dict(probes),
        "sim_us": 0,
        "steps": len(ctx.orders),
        "desc": desc,
        "tags": list(GRAPH_TAGS),
    }
    if render:
        res["render"] = {
            "set_order_mode": ["sorted", "reverse-sorted", "seeded"][mode],
            "projects": desc,
            "set_iteration_orders": ctx.orders,
            "calls": [[{"request": c["request"], "fault_at": c["fault_at"],
                        "outcome": o[0], "message": o[1], "history": o[2]}
                       for c, o in zip(d["calls"], outs)]
                      for d, outs in zip(desc, outcomes)],
        }
    return res


def canonical(descs):
    return [canonical1(d) for d in descs]


def canonical1(desc):
    return [desc["names"], sorted((k, sorted(v)) for k, v in
                                  desc["deps"].items()),
            sorted(desc["ntasks"].items()), desc["via"],
            [(c["request"], c["use_default"], c["fault_at"])
             for c in desc["calls"]]]


def classify(oracle_id, detail, res):
    return None

# ------------------------------------------------- native cross-validation


def native_batch():
    """Fresh interpreter, no seam: read descriptions from stdin, execute them
    under this interpreter's real hash seed, print outcomes."""
    hists = json.load(sys.stdin)
    out = []
    fresh_process_state()
    for descs in hists:
        # no fresh state in between: the whole batch is one long history
        out.append([execute(desc) for desc in descs])
    print("NATIVE " + json.dumps(out))


def native_start(batch, hs):
    env = dict(os.environ)
    env["PYTHONHASHSEED"] = str(hs)
    p = subprocess.Popen(
        [sys.executable, "-B", os.path.abspath(__file__), "--native-batch"],
        env=env, stdin=subprocess.PIPE, stdout=subprocess.PIPE,
        stderr=subprocess.PIPE, text=True)
    return p


def native_finish(p, batch):
    """-> list of (key, detail, position in batch)"""
    from collections import Counter

    so, se = p.communicate(json.dumps(batch), timeout=900)
    if p.returncode != 0:
        raise driver.HarnessError(f"native batch failed: {se[-2000:]}")
    line = [l for l in so.splitlines() if l.startswith("NATIVE ")][-1]
    viols = []
    for pos, (hist, outs) in enumerate(zip(batch, json.loads(line[7:]))):
        for desc, outcomes in zip(hist, outs):
            for call, outcome in zip(desc["calls"], outcomes):
                outcome = (outcome[0], outcome[1],
                           [tuple(x) for x in outcome[2]])
                for key, detail in check_call(desc, call, outcome, Counter()):
                    viols.append((key, detail, pos))
    return viols


def native_crosscheck(seed, idxs, hashseeds):
    """Run the histories of some run indices without the seam in fresh
    interpreters under real hash seeds (each interpreter executes the whole
    batch: one long history); judge with the same oracle.  Returns
    (runs, violations[(key, detail, idx, hashseed, batch_for_replay)])."""
    from sim.choices import Choices

    batch = []
    for i in idxs:
        ch = Choices(seed=driver.seed_for(PROP, seed, i))
        ch.weighted([1, 1, 6], "setmode")
        batch.append(gen_history(ch))
    procs = [(hs, native_start(batch, hs)) for hs in hashseeds]
    viols = []
    runs = 0
    for hs, p in procs:
        runs += len(batch)
        for key, detail, pos in native_finish(p, batch):
            viols.append((key, detail, idxs[pos], hs, pos))
    return runs, viols, batch


class Spec:
    prop = PROP
    tiers = {"quick": 200_000, "thorough": 6_000_000}
    selftest_samples = 400
    fresh_samples = 200
    shrink_runs = 1500
    pin_workers = False  # no threads, nothing to gain from pinning
    slow_step_s = 0.002
    shrink_wall_s = 60
    run_one = staticmethod(run_one)
    classify = staticmethod(classify)
    small_graph_space = {1: 2, 2: 16, 3: 512, 4: 65536, 5: 33554432}
    rule = ("each run draws a project (1-7 targets; uniform over all digraphs "
            "incl. self loops for n<=5, or DAG by density, or DAG plus back "
            "edges), 1-3 run() calls with requests/duplicates/default target, "
            "entry point (Project API, RecipeLoader, api.construct), an "
            "optional failing task, and the iteration order of every set of "
            "target names; distinct = distinct (graph, calls, drawn set "
            "orders); non-trivial = some requested closure has an edge "
            "(order matters) or a reachable cycle; coverage.distinct_by_tag "
            "counts the distinct adjacency matrices drawn per size (spaces: "
            "2, 16, 512, 65536, 2^25 for 1..5 targets)")
    assumptions = [
        "set iteration order is the only nondeterministic input of the "
        "runner; SimSet keeps every guarantee CPython gives (stable order "
        "for an unmodified object) and none it does not",
        "target names are str; dangling dependency names and empty requests "
        "without default are outside the statement and not generated",
        "a loop report is a TaskError whose message contains loop/cycl/"
        "circular",
    ]
    components_real = [
        "ppci.build.tasks (Project, Target, TaskRunner.run, dfs, "
        "dependencies, __gt__)", "ppci.build.recipe.RecipeLoader",
        "ppci.api.construct"]
    components_stub = [
        "builtin set -> sim.simset.SimSet via module global "
        "ppci.build.tasks.set", "task class SimRecordTask in task_map"]


def extra_phase(seed, tier, n_runs, merged):
    """Cross-validate the seam: the same projects executed without SimSet in
    fresh interpreters under real hash seeds, judged by the same oracle."""
    nproj = 400 if tier == "quick" else 4000
    hashseeds = list(range(0, 8 if tier == "quick" else 16))
    idxs = list(range(min(nproj, n_runs)))
    runs, viols, batch = native_crosscheck(seed, idxs, hashseeds)
    seam_keys = {k.split("|")[0] for k in merged["viol"]}
    out = []
    seen = set()
    for key, detail, i, hs, pos in viols:
        fid = classify(key, detail, {"desc": batch[pos]})
        k = key if fid is None else f"{key}|known:{fid}"
        if k in seen:
            continue
        seen.add(k)
        # minimise the history: the failing session alone, else the prefix
        alone = native_finish(native_start([batch[pos]], hs), [batch[pos]])
        rb = [batch[pos]] if any(v[0] == key for v in alone) \
            else batch[: pos + 1]
        out.append((k, f"[native PYTHONHASHSEED={hs}] " + detail,
                    {"name": f"native-run{i}-hs{hs}", "batch": rb,
                     "desc": batch[pos], "hashseed": hs, "run_index": i}))
    return {
        "coverage": {
            "traces_validated_against_impl": runs,
            "native_crosscheck": {
                "histories": len(idxs), "hash_seeds": hashseeds,
                "runs_without_seam": runs,
                "violations_without_seam": len(viols),
                "oracles_violated_without_seam": sorted(
                    {v[0] for v in viols}),
                "oracles_violated_under_seam": sorted(seam_keys),
            },
        },
        "violations": out,
    }


def replay_custom(rp, path):
    """Replay of a violation seen without the seam: fresh interpreter with the
    recorded real hash seed."""
    found = native_finish(native_start(rp["batch"], rp["hashseed"]),
                          rp["batch"])
    print(json.dumps({"failing_history": rp["desc"],
                      "sessions_in_process": len(rp["batch"])}, indent=1))
    want = rp["key"].split("|")[0]
    if any(k == want for k, _, _ in found):
        for k, d, _ in found:
            print(f"  {k}: {d}")
        print(f"VIOLATION property={PROP} replay={path}")
        return report.EXIT_VIOLATION
    print(f"replay did not reproduce {want}; got {found}")
    return report.EXIT_HELD


Spec.extra_phase = staticmethod(extra_phase)
Spec.replay_custom = staticmethod(replay_custom)


def main():
    if "--native-batch" in sys.argv:
        native_batch()
        return 0
    rc = driver.main(Spec, os.path.abspath(__file__))
    return rc


if __name__ == "__main__":
    sys.exit(main())
