#!/venv/bin/python
"""Sensitivity self-test: apply each mutant / seeded change to a scratch
worktree of /repo (outside /repo and /verif), run the property's check against
it and require a VIOLATION; then remove the worktree.

usage: selftest.py C34 [--runs N] [--only substring] [--tests]
"""

import argparse
import glob
import json
import os
import shutil
import subprocess
import sys

VERIF = os.path.dirname(os.path.dirname(os.path.abspath(__file__)))
REPO = "/repo"


def sh(cmd, **kw):
    return subprocess.run(cmd, shell=True, capture_output=True, text=True,
                          **kw)


def patches_for(prop):
    out = sorted(glob.glob(os.path.join(VERIF, "mutants", prop, "*.patch")))
    for meta in sorted(glob.glob(os.path.join(VERIF, "seeded", "*",
                                              "meta.json"))):
        with open(meta) as f:
            m = json.load(f)
        if m.get("property") == prop:
            out.append(os.path.join(os.path.dirname(meta), "patch.diff"))
    return out


def main():
    ap = argparse.ArgumentParser()
    ap.add_argument("prop")
    ap.add_argument("--runs", type=int, default=0)
    ap.add_argument("--only", default="")
    ap.add_argument("--tests", default="",
                    help="pytest paths (relative to the repo) that must "
                         "still pass with the mutant applied")
    ap.add_argument("--tier", default="quick")
    args = ap.parse_args()
    scratch = os.environ.get("VERIF_SCRATCH",
                             f"/var/tmp/ppci-verif-{os.getpid()}")
    os.makedirs(scratch, exist_ok=True)
    results = []
    try:
        for patch in patches_for(args.prop):
            name = os.path.basename(os.path.dirname(patch)) + "/" + \
                os.path.basename(patch)
            if args.only and args.only not in name:
                continue
            wt = os.path.join(scratch, "wt")
            sh(f"git -C {REPO} worktree remove --force {wt}")
            r = sh(f"git -C {REPO} worktree add --detach {wt} HEAD")
            if r.returncode:
                print("cannot create worktree", r.stderr)
                return 2
            try:
                r = sh(f"git -C {wt} apply {patch}")
                if r.returncode:
                    results.append((name, "PATCH-DOES-NOT-APPLY", ""))
                    continue
                tests_ok = ""
                if args.tests:
                    t = sh(f"cd {wt} && /venv/bin/python -m pytest -q -x "
                           f"-p no:cacheprovider {args.tests}")
                    tests_ok = "tests-pass" if t.returncode == 0 \
                        else "TESTS-FAIL"
                env = dict(os.environ, VERIF_REPO=wt,
                           VERIF_OUT=os.path.join(scratch, "out"))
                cmd = [sys.executable, "-B",
                       os.path.join(VERIF, "checks", args.prop.lower() + ".py"),
                       "--tier", args.tier]
                if args.runs:
                    cmd += ["--batches" if args.prop == "C30" else "--runs",
                            str(args.runs)]
                p = subprocess.run(cmd, env=env, capture_output=True,
                                   text=True, cwd=VERIF)
                v = [l for l in p.stdout.splitlines()
                     if l.startswith("VIOLATION")]
                keys = [l.strip() for l in p.stdout.splitlines()
                        if l.startswith("  ")]
                if p.returncode == 1 and v:
                    results.append((name, "caught " + tests_ok,
                                    "; ".join(k[:100] for k in keys[:3])))
                elif p.returncode == 0:
                    results.append((name, "MISSED " + tests_ok, ""))
                else:
                    results.append((name, f"HARNESS rc={p.returncode}",
                                    (p.stdout + p.stderr)[-600:]))
            finally:
                sh(f"git -C {REPO} worktree remove --force {wt}")
    finally:
        shutil.rmtree(scratch, ignore_errors=True)
        sh(f"git -C {REPO} worktree prune")
    bad = 0
    for name, verdict, info in results:
        print(f"{verdict:28s} {name}  {info}")
        if not verdict.startswith("caught"):
            bad += 1
    print(f"{len(results) - bad}/{len(results)} caught")
    return 1 if bad else 0


if __name__ == "__main__":
    sys.exit(main())
