#!/venv/bin/python
"""Localise a C30 difference: compile one subject in two configurations with
ppci's own text reporter and show the first section of the report that
differs (which phase introduced the order dependence).

usage: c30_localise.py <replay.json | --src file --march M --opt N> [--a hs,idhash,noise] [--b hs,idhash,noise]
"""
import argparse
import difflib
import json
import os
import subprocess
import sys

HERE = os.path.dirname(os.path.abspath(__file__))


def run(op, hs, idhash, noise, repo="/repo"):
    env = dict(os.environ, PYTHONHASHSEED=str(hs))
    job = {"ops": [op], "idhash": idhash, "noise": noise, "repo": repo}
    p = subprocess.run([sys.executable, "-B",
                        os.path.join(HERE, "c30_worker.py")],
                       input=json.dumps(job), capture_output=True, text=True,
                       env=env)
    line = [l for l in p.stdout.splitlines() if l.startswith("RESULT ")]
    if not line:
        raise SystemExit(p.stdout[-2000:] + p.stderr[-4000:])
    return json.loads(line[-1][7:])["results"][0]


def cfg(s):
    hs, idh, noise = (s.split(",") + ["", ""])[:3]
    return int(hs), (int(idh) if idh not in ("", "n") else None), \
        int(noise or 0)


def sections(text):
    out = []
    cur = ["<start>", []]
    for line in text.splitlines():
        if line.startswith(("=", "-", "#")) and len(line) > 3 and \
                len(set(line[:4])) == 1:
            continue
        if line[:1].isupper() and (line.endswith(":") or
                                   "unction" in line[:12]):
            out.append(cur)
            cur = [line, []]
        else:
            cur[1].append(line)
    out.append(cur)
    return out


def main():
    ap = argparse.ArgumentParser()
    ap.add_argument("replay", nargs="?")
    ap.add_argument("--src")
    ap.add_argument("--march", default="x86_64")
    ap.add_argument("--opt", type=int, default=0)
    ap.add_argument("--a", default="0,,0")
    ap.add_argument("--b", default="1,5,0")
    ap.add_argument("--repo", default="/repo")
    ap.add_argument("--context", type=int, default=12)
    args = ap.parse_args()
    if args.replay:
        rp = json.load(open(args.replay))
        op = dict(rp["op"])
    else:
        op = {"id": "x", "src": open(args.src).read(), "march": args.march,
              "opt": args.opt}
    op["report"] = True
    op["outputs"] = ["obj"]
    op["keep_text"] = True
    a = run(op, *cfg(args.a), repo=args.repo)
    b = run(op, *cfg(args.b), repo=args.repo)
    print("digests", a["digests"], b["digests"])
    if a["digests"] == b["digests"]:
        print("no difference between these two configurations")
        return
    la = a.get("report", "").splitlines()
    lb = b.get("report", "").splitlines()
    for i, (x, y) in enumerate(zip(la, lb)):
        if x != y:
            lo = max(0, i - args.context)
            print(f"first differing report line {i}:")
            heads = [l for l in la[:i] if l and l[0] not in " \t" and
                     len(l) < 100][-6:]
            print("  under headings:", heads)
            for l in difflib.unified_diff(la[lo:i + args.context],
                                          lb[lo:i + args.context],
                                          lineterm="", n=3):
                print("   ", l)
            break
    else:
        print("reports identical; object text differs:")
        ta = a["texts"]["obj"].splitlines()
        tb = b["texts"]["obj"].splitlines()
        for l in list(difflib.unified_diff(ta, tb, lineterm="", n=1))[:40]:
            print("   ", l[:200])


if __name__ == "__main__":
    main()
